package mmc

import (
	zz "gitlab.com/gomidi/midi/v2/internal/zzverif"
)

// VerifC18Goto: locate messages parse back to the value they were built from (all six bytes symbolic).
func VerifC18Goto() {
	g := GoTo{DeviceID: zz.U8("dev"), Hour: zz.U8("h"), Minute: zz.U8("m"), Second: zz.U8("s"), Frame: zz.U8("f"), SubFrame: zz.U8("sf")}
	bt := g.SysEx()
	zz.Assert(len(bt) == 13 && bt[0] == 0xF0 && bt[12] == 0xF7, "framing")
	var p GoTo
	err := p.Parse(bt)
	zz.Assert(err == nil, "parse-accepts-built")
	zz.Assert(p == g, "goto-roundtrip")
	// a second value built before parsing must not disturb the first (no shared buffers)
	g2 := GoTo{DeviceID: zz.U8("dev2"), Hour: zz.U8("h2"), Minute: zz.U8("m2"), Second: zz.U8("s2"), Frame: zz.U8("f2"), SubFrame: zz.U8("sf2")}
	bt1 := g.SysEx()
	bt2 := g2.SysEx()
	var q1, q2 GoTo
	e1 := q1.Parse(bt1)
	e2 := q2.Parse(bt2)
	zz.Assert(e1 == nil && e2 == nil, "parse-accepts-built-pair")
	zz.Assert(q1 == g && q2 == g2, "goto-roundtrip-independent")
	zz.Reach("end")
}

// VerifC18Cmd: plain machine control commands: device 1..127, single-byte command below 0x40.
func VerifC18Cmd() {
	m := Message{DeviceID: zz.U8("dev"), Command: Command(zz.U8("cmd"))}
	zz.Assume(m.DeviceID >= 1 && m.DeviceID <= 127)
	zz.Assume(m.Command < 0x40)
	bt := m.SysEx()
	zz.Assert(len(bt) >= 5 && bt[0] == 0xF0 && bt[len(bt)-1] == 0xF7, "framing")
	var p Message
	if zz.Choice("reuse", 2) == 1 {
		// the same Message value parsed a machine control response before
		resp := []byte{0xF0, 0x7F, zz.U8("rdev"), 0x07, zz.U8("r1"), zz.U8("r2"), 0xF7}
		_ = p.Parse(resp)
	}
	zz.Known("C18-mmc-command-length", true)
	err := p.Parse(bt)
	zz.Assert(err == nil, "parse-accepts-built")
	if err == nil {
		zz.Assert(p.DeviceID == m.DeviceID, "device-roundtrip")
		zz.Assert(p.Command == m.Command, "command-roundtrip")
		zz.Assert(!p.IsResponse, "not-a-response")
	}
	zz.Reach("end")
}
