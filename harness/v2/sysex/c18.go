package sysex

// C18: Roland-style manufacturer sysex: parse(build(v)) == v, checksum sums to zero mod 128,
// any single corrupted address/payload/checksum byte makes parsing fail.

import (
	zz "gitlab.com/gomidi/midi/v2/internal/zzverif"
)

func c18value(L int) Manufacturer {
	var m Manufacturer
	m.ManufacturerID = ManufacturerID(zz.U8("manu"))
	m.DeviceID = zz.U8("dev")
	m.ModelID = zz.U8("model")
	zz.Assume(m.ManufacturerID < 128 && m.DeviceID < 128 && m.ModelID < 128)
	m.Address[0], m.Address[1], m.Address[2] = zz.U8("a0"), zz.U8("a1"), zz.U8("a2")
	zz.Assume(m.Address[0] < 128 && m.Address[1] < 128 && m.Address[2] < 128)
	if L == 0 {
		m.InfoRequest = true
		m.NumReqBytes[0], m.NumReqBytes[1], m.NumReqBytes[2] = zz.U8("n0"), zz.U8("n1"), zz.U8("n2")
		zz.Assume(m.NumReqBytes[0] < 128 && m.NumReqBytes[1] < 128 && m.NumReqBytes[2] < 128)
	} else {
		m.SendingData = zz.Bytes("data", L)
		for i := range m.SendingData {
			zz.Assume(m.SendingData[i] < 128)
		}
	}
	return m
}

// VerifC18Roland: L = payload length (0 = data request with three size bytes).
func VerifC18Roland() {
	L := zz.Param("L")
	m := c18value(L)
	bt := m.SysEx()
	if zz.Param("other") == 1 {
		// another message is built before the first one is used: the bytes of the first must not change
		(Manufacturer{ManufacturerID: 0x41, DeviceID: 1, ModelID: 2, Address: [3]byte{1, 2, 3}, SendingData: []byte{9, 8, 7, 6, 5, 4, 3, 2, 1}}).SysEx()
	}
	// layout
	wantLen := 8 + L + 2
	if L == 0 {
		wantLen = 13
	}
	zz.Assert(len(bt) == wantLen, "built-length")
	zz.Assert(bt[0] == 0xF0 && bt[len(bt)-1] == 0xF7, "framing")
	// address + payload/size + checksum sum to zero modulo 128
	sum := 0
	for i := 5; i < len(bt)-1; i++ {
		sum += int(bt[i])
	}
	zz.Assert(sum%128 == 0, "checksum-sums-to-zero")
	zz.Assert(bt[len(bt)-2] < 128, "checksum-7bit")
	zz.Known("C18-parse-payload-includes-checksum", L > 0)
	p, err := Parse(bt)
	zz.Assert(err == nil, "parse-accepts-built")
	if err == nil {
		zz.Assert(p.ManufacturerID == m.ManufacturerID && p.DeviceID == m.DeviceID && p.ModelID == m.ModelID, "ids-roundtrip")
		zz.Assert(p.InfoRequest == m.InfoRequest, "kind-roundtrip")
		zz.Assert(p.Address == m.Address, "address-roundtrip")
		if L == 0 {
			zz.Assert(p.NumReqBytes == m.NumReqBytes, "size-roundtrip")
		} else {
			zz.Assert(len(p.SendingData) == L, "payload-length-roundtrip")
			if len(p.SendingData) == L {
				for i := 0; i < L; i++ {
					zz.Assert(p.SendingData[i] == m.SendingData[i], "payload-roundtrip")
				}
			}
		}
	}
	zz.Reach("end")
}

// VerifC18Corrupt: one address/payload/checksum byte replaced by another 7-bit value => Parse fails.
// Param sympos=1: the position is one symbolic variable; sympos=0: the engine forks per position.
func VerifC18Corrupt() {
	L := zz.Param("L")
	m := c18value(L)
	bt := m.SysEx()
	n := len(bt)
	lo, hi := 5, n-2 // first address byte .. checksum byte
	var pos int
	if zz.Param("sympos") == 1 {
		pos = zz.Int("pos")
		zz.Assume(pos >= lo && pos <= hi)
	} else {
		pos = lo + zz.Choice("pos", hi-lo+1)
	}
	nv := zz.U8("newval")
	zz.Assume(nv < 128)
	zz.Assume(nv != bt[pos])
	bt[pos] = nv
	zz.Known("C18-parse-payload-includes-checksum", L > 0)
	_, err := Parse(bt)
	zz.Assert(err != nil, "corruption-detected")
	zz.Reach("end")
}
