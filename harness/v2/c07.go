package midi

// C07: constructors emit the MIDI 1.0 wire encoding, accessors invert them.
// Oracle: the MIDI 1.0 layout written as arithmetic on the arguments (never the library's helpers).

import (
	zz "gitlab.com/gomidi/midi/v2/internal/zzverif"
)

func c07clamp(v, max uint8) uint8 {
	if v > max {
		return max
	}
	return v
}

// every type-specific accessor other than `except` must reject m
// (GetNoteStart/GetNoteEnd/GetChannel are the derived views the property exempts).
func c07others(m Message, except string) {
	var a, b, c uint8
	var r int16
	var u uint16
	var bt []byte
	if except != "NoteOn" {
		zz.Assert(!m.GetNoteOn(&a, &b, &c), "other-rejects:GetNoteOn")
	}
	if except != "NoteOff" {
		zz.Assert(!m.GetNoteOff(&a, &b, &c), "other-rejects:GetNoteOff")
	}
	if except != "PolyAfterTouch" {
		zz.Assert(!m.GetPolyAfterTouch(&a, &b, &c), "other-rejects:GetPolyAfterTouch")
	}
	if except != "ControlChange" {
		zz.Assert(!m.GetControlChange(&a, &b, &c), "other-rejects:GetControlChange")
	}
	if except != "ProgramChange" {
		zz.Assert(!m.GetProgramChange(&a, &b), "other-rejects:GetProgramChange")
	}
	if except != "AfterTouch" {
		zz.Assert(!m.GetAfterTouch(&a, &b), "other-rejects:GetAfterTouch")
	}
	if except != "PitchBend" {
		zz.Assert(!m.GetPitchBend(&a, &r, &u), "other-rejects:GetPitchBend")
	}
	if except != "MTC" {
		zz.Assert(!m.GetMTC(&a), "other-rejects:GetMTC")
	}
	if except != "SPP" {
		zz.Assert(!m.GetSPP(&u), "other-rejects:GetSPP")
	}
	if except != "SongSelect" {
		zz.Assert(!m.GetSongSelect(&a), "other-rejects:GetSongSelect")
	}
	zz.Assert(!m.GetSysEx(&bt), "other-rejects:GetSysEx")
}

// VerifC07Chan3: the five constructors with (channel, data, data) arguments, all 2^24 argument values each.
func VerifC07Chan3() {
	ch, d1, d2 := zz.U8("ch"), zz.U8("d1"), zz.U8("d2")
	ech, e1, e2 := c07clamp(ch, 15), c07clamp(d1, 127), c07clamp(d2, 127)
	var gc, g1, g2 uint8
	switch zz.Choice("ctor", 5) {
	case 0:
		m := NoteOn(ch, d1, d2)
		zz.Assert(len(m) == 3, "len")
		zz.Assert(m[0] == 0x90|ech, "status")
		zz.Assert(m[1] == e1, "data1")
		zz.Assert(m[2] == e2, "data2")
		zz.Assert(m.GetNoteOn(&gc, &g1, &g2), "accessor-accepts")
		zz.Assert(gc == ech, "acc-channel")
		zz.Assert(g1 == e1, "acc-data1")
		zz.Assert(g2 == e2, "acc-data2")
		c07others(m, "NoteOn")
		// derived views against their own definitions
		var sc, sk, sv uint8
		zz.Assert(m.GetNoteStart(&sc, &sk, &sv) == (e2 > 0), "notestart-def")
		zz.Assert(m.GetNoteEnd(&sc, &sk) == (e2 == 0), "noteend-def")
	case 1:
		m := NoteOffVelocity(ch, d1, d2)
		zz.Assert(len(m) == 3, "len")
		zz.Assert(m[0] == 0x80|ech, "status")
		zz.Assert(m[1] == e1, "data1")
		zz.Assert(m[2] == e2, "data2")
		zz.Assert(m.GetNoteOff(&gc, &g1, &g2), "accessor-accepts")
		zz.Assert(gc == ech, "acc-channel")
		zz.Assert(g1 == e1, "acc-data1")
		zz.Assert(g2 == e2, "acc-data2")
		c07others(m, "NoteOff")
		var sc, sk uint8
		zz.Assert(m.GetNoteEnd(&sc, &sk), "noteend-def")
		zz.Assert(sc == ech && sk == e1, "noteend-values")
	case 2:
		m := PolyAfterTouch(ch, d1, d2)
		zz.Assert(len(m) == 3, "len")
		zz.Assert(m[0] == 0xA0|ech, "status")
		zz.Assert(m[1] == e1, "data1")
		zz.Assert(m[2] == e2, "data2")
		zz.Assert(m.GetPolyAfterTouch(&gc, &g1, &g2), "accessor-accepts")
		zz.Assert(gc == ech, "acc-channel")
		zz.Assert(g1 == e1, "acc-data1")
		zz.Assert(g2 == e2, "acc-data2")
		c07others(m, "PolyAfterTouch")
	case 3:
		m := ControlChange(ch, d1, d2)
		zz.Assert(len(m) == 3, "len")
		zz.Assert(m[0] == 0xB0|ech, "status")
		zz.Assert(m[1] == e1, "data1")
		zz.Assert(m[2] == e2, "data2")
		zz.Assert(m.GetControlChange(&gc, &g1, &g2), "accessor-accepts")
		zz.Assert(gc == ech, "acc-channel")
		zz.Assert(g1 == e1, "acc-data1")
		zz.Assert(g2 == e2, "acc-data2")
		c07others(m, "ControlChange")
	case 4:
		m := NoteOff(ch, d1)
		zz.Assert(len(m) == 3, "len")
		zz.Assert(m[0] == 0x80|ech, "status")
		zz.Assert(m[1] == e1, "data1")
		zz.Assert(m[2] == 0, "data2")
		zz.Assert(m.GetNoteOff(&gc, &g1, &g2), "accessor-accepts")
		zz.Assert(gc == ech, "acc-channel")
		zz.Assert(g1 == e1, "acc-data1")
		zz.Assert(g2 == 0, "acc-data2")
		c07others(m, "NoteOff")
	}
	var cc uint8
	zz.Reach("end")
	_ = cc
}

// VerifC07Chan2: ProgramChange, AfterTouch (channel, data) and Pitchbend (channel, int16).
func VerifC07Chan2() {
	ch := zz.U8("ch")
	ech := c07clamp(ch, 15)
	var gc, g1 uint8
	switch zz.Choice("ctor", 3) {
	case 0:
		d := zz.U8("d")
		m := ProgramChange(ch, d)
		zz.Assert(len(m) == 2, "len")
		zz.Assert(m[0] == 0xC0|ech, "status")
		zz.Assert(m[1] == c07clamp(d, 127), "data1")
		zz.Assert(m.GetProgramChange(&gc, &g1), "accessor-accepts")
		zz.Assert(gc == ech, "acc-channel")
		zz.Assert(g1 == c07clamp(d, 127), "acc-data1")
		c07others(m, "ProgramChange")
	case 1:
		d := zz.U8("d")
		m := AfterTouch(ch, d)
		zz.Assert(len(m) == 2, "len")
		zz.Assert(m[0] == 0xD0|ech, "status")
		zz.Assert(m[1] == c07clamp(d, 127), "data1")
		zz.Assert(m.GetAfterTouch(&gc, &g1), "accessor-accepts")
		zz.Assert(gc == ech, "acc-channel")
		zz.Assert(g1 == c07clamp(d, 127), "acc-data1")
		c07others(m, "AfterTouch")
	case 2:
		v := zz.I16("v")
		ev := v
		if ev > 8191 {
			ev = 8191
		}
		if ev < -8192 {
			ev = -8192
		}
		abs := uint16(int32(ev) + 8192) // 14-bit value, centre 8192
		m := Pitchbend(ch, v)
		zz.Assert(len(m) == 3, "len")
		zz.Assert(m[0] == 0xE0|ech, "status")
		zz.Assert(m[1] == uint8(abs&0x7F), "pitch-lsb-first")
		zz.Assert(m[2] == uint8(abs>>7), "pitch-msb-second")
		zz.Assert(m[1] < 0x80 && m[2] < 0x80, "data-7bit")
		var rel int16
		var ab uint16
		zz.Assert(m.GetPitchBend(&gc, &rel, &ab), "accessor-accepts")
		zz.Assert(gc == ech, "acc-channel")
		zz.Assert(rel == ev, "acc-relative")
		zz.Assert(ab == abs, "acc-absolute")
		c07others(m, "PitchBend")
	}
	zz.Reach("end")
}

// VerifC07Sys: system common constructors. In range: exact layout and inverse; out of range: only
// well-formedness (no data byte above 127), as the property's quantifier says.
func VerifC07Sys() {
	switch zz.Choice("ctor", 4) {
	case 0:
		p := zz.U16("spp")
		m := SPP(p)
		zz.Assert(len(m) == 3, "len")
		zz.Assert(m[0] == 0xF2, "status")
		zz.Assert(m[1] < 0x80 && m[2] < 0x80, "data-7bit")
		if p < 16384 {
			zz.Known("C07-spp-msb-first", p&0x7F != p>>7)
			zz.Assert(m[1] == uint8(p&0x7F), "spp-lsb-first")
			zz.Assert(m[2] == uint8(p>>7), "spp-msb-second")
			var g uint16
			zz.Assert(m.GetSPP(&g), "accessor-accepts")
			zz.Assert(g == p, "acc-spp")
			c07others(m, "SPP")
		}
	case 1:
		s := zz.U8("song")
		m := SongSelect(s)
		zz.Assert(len(m) == 2, "len")
		zz.Assert(m[0] == 0xF3, "status")
		zz.Known("C07-songselect-8bit", s > 127)
		zz.Assert(m[1] < 0x80, "data-7bit")
		if s < 128 {
			zz.Assert(m[1] == s, "data1")
			var g uint8
			zz.Assert(m.GetSongSelect(&g), "accessor-accepts")
			zz.Assert(g == s, "acc-song")
			c07others(m, "SongSelect")
		}
	case 2:
		q := zz.U8("mtc")
		m := MTC(q)
		zz.Assert(len(m) == 2, "len")
		zz.Assert(m[0] == 0xF1, "status")
		zz.Known("C07-mtc-8bit", q > 127)
		zz.Assert(m[1] < 0x80, "data-7bit")
		if q < 128 {
			zz.Assert(m[1] == q, "data1")
			var g uint8
			zz.Assert(m.GetMTC(&g), "accessor-accepts")
			zz.Assert(g == q, "acc-mtc")
			c07others(m, "MTC")
		}
	case 3:
		m := Tune()
		zz.Assert(len(m) == 1 && m[0] == 0xF6, "tune")
		zz.Assert(m.Is(TuneMsg), "tune-type")
		c07others(m, "Tune")
	}
	zz.Reach("end")
}

// VerifC07Partial: "only arguments that are not nil are parsed and filled": for every message of the accessor's
// length and every subset of requested arguments, the accessor accepts exactly when the all-arguments call accepts
// and fills the requested arguments with the same values.
func VerifC07Partial() {
	raw := zz.Bytes("m", 3)
	mask := zz.Choice("mask", 8)
	var a, b, c, fa, fb, fc uint8
	var r, fr int16
	var u, fu uint16
	pa, pb, pc, pr, pu := &a, &b, &c, &r, &u
	if mask&1 == 0 {
		pa = nil
	}
	if mask&2 == 0 {
		pb, pr = nil, nil
	}
	if mask&4 == 0 {
		pc, pu = nil, nil
	}
	var full, part bool
	three := true
	switch zz.Choice("accessor", 7) {
	case 0:
		m := Message(raw)
		full, part = m.GetNoteOn(&fa, &fb, &fc), m.GetNoteOn(pa, pb, pc)
	case 1:
		m := Message(raw)
		full, part = m.GetNoteOff(&fa, &fb, &fc), m.GetNoteOff(pa, pb, pc)
	case 2:
		m := Message(raw)
		full, part = m.GetPolyAfterTouch(&fa, &fb, &fc), m.GetPolyAfterTouch(pa, pb, pc)
	case 3:
		m := Message(raw)
		full, part = m.GetControlChange(&fa, &fb, &fc), m.GetControlChange(pa, pb, pc)
	case 4:
		m := Message(raw[:2])
		three = false
		full, part = m.GetProgramChange(&fa, &fb), m.GetProgramChange(pa, pb)
	case 5:
		m := Message(raw[:2])
		three = false
		full, part = m.GetAfterTouch(&fa, &fb), m.GetAfterTouch(pa, pb)
	case 6:
		m := Message(raw)
		full, part = m.GetPitchBend(&fa, &fr, &fu), m.GetPitchBend(pa, pr, pu)
		zz.Assert(!full || pr == nil || r == fr, "partial:relative-pitch")
		zz.Assert(!full || pu == nil || u == fu, "partial:absolute-pitch")
		b, c = fb, fc
	}
	zz.Assert(full == part, "partial:same-acceptance")
	if full && part {
		zz.Assert(pa == nil || a == fa, "partial:first-argument")
		zz.Assert(pb == nil || b == fb, "partial:second-argument")
		zz.Assert(!three || pc == nil || c == fc, "partial:third-argument")
	}
	zz.Reach("end")
}
