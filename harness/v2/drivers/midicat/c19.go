package midicat

// C19: the midicat text line protocol "<decimal timestamp> <HEX bytes>\n" is lossless and self-framing.

import (
	"io"
	"strconv"

	zz "gitlab.com/gomidi/midi/v2/internal/zzverif"
)

// charReader hands out the stream; the last byte may arrive together with io.EOF, and any of the first eight
// calls may report that nothing happened (0 bytes, nil error), as io.Reader allows.
type charReader struct {
	data      []byte
	pos       int
	eofWith   bool
	maxPerGet int
	hesitate  uint8 // bit i set: call i returns (0, nil)
	calls     int
}

func (r *charReader) Read(p []byte) (int, error) {
	if len(p) == 0 {
		return 0, nil
	}
	call := r.calls
	r.calls++
	if call < 8 && r.hesitate&(1<<uint(call)) != 0 {
		return 0, nil
	}
	if r.pos >= len(r.data) {
		return 0, io.EOF
	}
	n := len(p)
	if n > len(r.data)-r.pos {
		n = len(r.data) - r.pos
	}
	copy(p, r.data[r.pos:r.pos+n])
	r.pos += n
	if r.eofWith && r.pos == len(r.data) {
		return n, io.EOF
	}
	return n, nil
}

var c19stamps = []int32{0, 23, -1, 2147483647, -2147483648, 1000000000, -1000000000, 7}

func c19hex(n byte) byte { return zz.IteU8(n < 10, '0'+n, 'A'+n-10) }

func c19line(ts int32, payload []byte) []byte {
	line := []byte(strconv.Itoa(int(ts)))
	line = append(line, ' ')
	for _, b := range payload {
		line = append(line, c19hex(b>>4), c19hex(b&0x0F))
	}
	return append(line, '\n')
}

// VerifC19Seq: R records written in the driver's line format decode back to the same records, one per call.
func VerifC19Seq() {
	R, P := zz.Param("R"), zz.Param("P")
	var stream []byte
	type rec struct {
		ts      int32
		payload []byte
	}
	var recs []rec
	for i := 0; i < R; i++ {
		ks := string(rune('a' + i))
		ts := c19stamps[zz.Choice("stamp"+ks, zz.Param("stamps"))]
		payload := zz.Bytes("msg"+ks, 1+zz.Choice("len"+ks, P))
		recs = append(recs, rec{ts, payload})
		stream = append(stream, c19line(ts, payload)...)
	}
	rd := &charReader{data: stream, eofWith: zz.Choice("eof-with-last-byte", 2) == 1, hesitate: zz.U8("calls-that-return-nothing") & (uint8(1)<<uint(zz.Param("hesitbits")) - 1)}
	for _, want := range recs {
		out, ts, err := ReadAndConvert(rd)
		zz.Assert(err == nil, "seq:record-decodes")
		if err != nil {
			return
		}
		zz.Assert(ts == want.ts, "seq:timestamp")
		zz.Assert(len(out) == len(want.payload), "seq:length")
		if len(out) == len(want.payload) {
			conds := make([]bool, 0, len(out))
			for i := range out {
				conds = append(conds, out[i] == want.payload[i])
			}
			zz.Assert(zz.And(conds...), "seq:bytes")
		}
	}
	_, _, err := ReadAndConvert(rd)
	zz.Assert(err != nil, "seq:end-of-stream-is-an-error-not-a-record")
	zz.Reach("end")
}

// VerifC19Bad: a malformed line followed by a good one: the malformed line yields an error (never a panic,
// never a record); the following good line is decoded on its own.
func VerifC19Bad() {
	good := zz.Bytes("good", 2)
	goodLine := c19line(23, good)
	var bad []byte
	hasNewline := true
	switch zz.Choice("mutation", 9) {
	case 0: // odd number of hex characters
		bad = append([]byte("5 "), c19hex(zz.U8("a")&0x0F), c19hex(zz.U8("b")&0x0F), c19hex(zz.U8("c")&0x0F), '\n')
	case 1: // a non-hex character at a symbolic position of the payload
		chars := []byte{c19hex(zz.U8("a") & 0x0F), c19hex(zz.U8("b") & 0x0F), c19hex(zz.U8("c") & 0x0F), c19hex(zz.U8("d") & 0x0F)}
		pos := zz.Choice("pos", 4)
		x := zz.U8("nonhex")
		zz.Assume(!((x >= '0' && x <= '9') || (x >= 'a' && x <= 'f') || (x >= 'A' && x <= 'F')))
		zz.Assume(x != ' ' && x != '\n')
		chars[pos] = x
		bad = append(append([]byte("5 "), chars...), '\n')
	case 2: // missing separator
		bad = append([]byte("5"), c19hex(zz.U8("a")&0x0F), c19hex(zz.U8("b")&0x0F), '\n')
	case 3: // empty payload
		bad = []byte("5 \n")
	case 5: // a non-digit character inside the time stamp (symbolic position)
		ts := []byte("123")
		x := zz.U8("nondigit")
		zz.Assume(x >= 'g' && x <= 'z')
		ts[zz.Choice("tspos", 3)] = x
		bad = append(append(ts, ' '), c19hex(zz.U8("a")&0x0F), c19hex(zz.U8("b")&0x0F), '\n')
	case 6: // a second separator inside the payload
		bad = append([]byte("5 "), c19hex(zz.U8("a")&0x0F), c19hex(zz.U8("b")&0x0F), ' ', c19hex(zz.U8("c")&0x0F), c19hex(zz.U8("d")&0x0F), '\n')
	case 7: // complete hex pairs followed by exactly one other character
		x := zz.U8("trailing")
		zz.Assume(!((x >= '0' && x <= '9') || (x >= 'a' && x <= 'f') || (x >= 'A' && x <= 'F')))
		zz.Assume(x != ' ' && x != '\n')
		bad = append([]byte("5 "), c19hex(zz.U8("a")&0x0F), c19hex(zz.U8("b")&0x0F), c19hex(zz.U8("c")&0x0F), c19hex(zz.U8("d")&0x0F), x, '\n')
	case 8: // a time stamp field of 11..16 digits (no int32 has that many): one malformed line, consumed up to its newline
		ts := []byte("9876543210987654")[:11+zz.Choice("tslen", 6)]
		d := zz.U8("firstdigit")
		zz.Assume(d >= '1' && d <= '9')
		ts[0] = d
		bad = append(append(ts, ' '), c19hex(zz.U8("a")&0x0F), c19hex(zz.U8("b")&0x0F), '\n')
	case 4: // missing terminator before the end of the stream
		bad = append([]byte("5 "), c19hex(zz.U8("a")&0x0F), c19hex(zz.U8("b")&0x0F))
		hasNewline = false
	}
	var stream []byte
	if hasNewline {
		stream = append(append(stream, bad...), goodLine...)
	} else {
		stream = append(append(stream, goodLine...), bad...)
	}
	rd := &charReader{data: stream, eofWith: zz.Choice("eof-with-last-byte", 2) == 1}
	check := func(wantGood bool) {
		var out []byte
		var ts int32
		var err error
		p := zz.Panics(func() { out, ts, err = ReadAndConvert(rd) })
		zz.Assert(!p, "bad:no-panic")
		if p {
			return
		}
		if wantGood {
			zz.Assert(err == nil, "bad:good-line-decodes")
			if err == nil {
				zz.Assert(ts == 23 && len(out) == 2 && out[0] == good[0] && out[1] == good[1], "bad:good-line-not-merged-with-its-neighbour")
			}
		} else {
			zz.Assert(err != nil, "bad:malformed-line-is-an-error")
		}
	}
	if hasNewline {
		check(false)
		check(true)
	} else {
		check(true)
		check(false)
	}
	zz.Reach("end")
}
