package testdrv

// C04 / C07 (loopback) / C14 / C17 on the in-memory driver through the public API (midi.ListenTo, Send).

import (
	"time"

	"gitlab.com/gomidi/midi/v2"
	"gitlab.com/gomidi/midi/v2/drivers"
	zz "gitlab.com/gomidi/midi/v2/internal/zzverif"
)

type c04got struct {
	msg []byte
	ts  int32
}

type c04log struct{ got []c04got }

// the listener keeps the message it was handed (no copy): a later message must not overwrite an earlier one
func (l *c04log) recv(m midi.Message, ts int32) {
	l.got = append(l.got, c04got{m, ts})
}

func c04same(a, b []byte) bool {
	if len(a) != len(b) {
		return false
	}
	conds := make([]bool, 0, len(a))
	for i := range a {
		conds = append(conds, a[i] == b[i])
	}
	return zz.And(conds...)
}

func c04d7(n string) byte { v := zz.U8(n); zz.Assume(v < 0x80); return v }

// one message built with the library's constructors; kinds: 0 ch2, 1 ch1, 2 MTC, 3 SPP, 4 SongSelect, 5 Tune, 6 sysex, 7 realtime
func c04msg(k string, kinds int) (m midi.Message, kind int) {
	kind = zz.Choice("kind"+k, kinds)
	switch kind {
	case 0:
		ch := zz.U8("ch"+k) & 0x0F
		a, b := c04d7("a"+k), c04d7("b"+k)
		switch zz.Choice("ch2kind"+k, 5) {
		case 0:
			m = midi.NoteOn(ch, a, b)
		case 1:
			m = midi.NoteOffVelocity(ch, a, b)
		case 2:
			m = midi.PolyAfterTouch(ch, a, b)
		case 3:
			m = midi.ControlChange(ch, a, b)
		default:
			v := zz.I16("bend" + k)
			zz.Assume(v >= -8192 && v <= 8191)
			m = midi.Pitchbend(ch, v)
		}
	case 1:
		ch := zz.U8("ch"+k) & 0x0F
		if zz.Choice("ch1kind"+k, 2) == 0 {
			m = midi.ProgramChange(ch, c04d7("a"+k))
		} else {
			m = midi.AfterTouch(ch, c04d7("a"+k))
		}
	case 2:
		m = midi.MTC(c04d7("a" + k))
	case 3:
		p := zz.U16("spp" + k)
		zz.Assume(p < 16384)
		m = midi.SPP(p)
	case 4:
		m = midi.SongSelect(c04d7("a" + k))
	case 5:
		m = midi.Tune()
	case 6:
		L := zz.Choice("sxlen"+k, 3)
		m = append([]byte{0xF0}, make([]byte, L)...)
		for i := 0; i < L; i++ {
			m[1+i] = c04d7("sx" + k)
		}
		m = append(m, 0xF7)
	default:
		rt := []byte{0xF8, 0xF9, 0xFA, 0xFB, 0xFC, 0xFE, 0xFF}
		m = midi.Message{rt[zz.Choice("rt"+k, len(rt))]}
	}
	return
}

type c04expect struct {
	msg  []byte
	from int // index of the first wire byte
	to   int // index of the last wire byte
}

// VerifC04Listen: M constructor-built messages -> wire (running status elision, one inserted realtime byte,
// one cut into two Send calls with symbolic delays) -> ListenTo: exactly those messages, explicit status,
// timestamp of the chunk that completed them.
func VerifC04Listen() {
	M := zz.Param("M")
	var wire []byte
	var exp []c04expect
	var lastStatus byte // running status the sender may elide
	for i := 0; i < M; i++ {
		m, kind := c04msg(string(rune('a'+i)), zz.Param("kinds"))
		bytes := []byte(m)
		from := len(wire)
		if kind <= 1 {
			if lastStatus == m[0] && zz.Choice("elide"+string(rune('a'+i)), 2) == 1 {
				bytes = bytes[1:]
			}
			lastStatus = m[0]
		} else if kind != 7 {
			lastStatus = 0 // system common and sysex cancel running status
		}
		wire = append(wire, bytes...)
		exp = append(exp, c04expect{msg: m, from: from, to: len(wire) - 1})
	}
	// one realtime byte inserted at any position (also inside a message or a sysex)
	if zz.Param("rtinsert") == 1 && zz.Choice("insert-rt", 2) == 1 {
		pos := zz.Choice("rtpos", len(wire)+1)
		rt := []byte{0xF8, 0xFF, 0xFE, 0xFA, 0xFB, 0xFC, 0xF9}[zz.Choice("rtbyte", zz.Param("rtbytes"))]
		nw := append(append(append([]byte{}, wire[:pos]...), rt), wire[pos:]...)
		var ne []c04expect
		placed := false
		for _, e := range exp {
			if !placed && pos <= e.to {
				// arrives before the message that is completed at or after pos
				ne = append(ne, c04expect{msg: []byte{rt}, from: pos, to: pos})
				placed = true
			}
			if e.from >= pos {
				e.from++
			}
			if e.to >= pos {
				e.to++
			}
			ne = append(ne, e)
		}
		if !placed {
			ne = append(ne, c04expect{msg: []byte{rt}, from: pos, to: pos})
		}
		wire, exp = nw, ne
	}
	cut := zz.Choice("cut", len(wire)+1)
	k1, k2 := zz.U16("sleep1"), zz.U16("sleep2")

	drv := New("loop")
	ins, _ := drv.Ins()
	outs, _ := drv.Outs()
	zz.RealDelay() // time stamps are on the driver's own clock (Driver.Sleep), whatever the wall clock does meanwhile
	var log c04log
	opts := []midi.Option{midi.UseSysEx(), midi.UseTimeCode(), midi.UseActiveSense()}
	if sb := zz.Param("sxbuf"); sb > 0 {
		// sysex of up to sb bytes in total must get through; the options may come in either order
		if zz.Choice("buffer-size-option-first", 2) == 1 {
			opts = append([]midi.Option{midi.SysExBufferSize(uint32(sb))}, opts...)
		} else {
			opts = append(opts, midi.SysExBufferSize(uint32(sb)))
		}
	}
	stop, err := midi.ListenTo(ins[0], log.recv, opts...)
	zz.Assert(err == nil, "listen:ok")
	zz.Assert(outs[0].Open() == nil, "open:ok")
	drv.Sleep(time.Duration(k1) * time.Millisecond)
	zz.Assert(outs[0].Send(wire[:cut]) == nil, "send1:ok")
	drv.Sleep(time.Duration(k2) * time.Millisecond)
	zz.Assert(outs[0].Send(wire[cut:]) == nil, "send2:ok")
	stop()

	zz.Assert(len(log.got) == len(exp), "listen:message-count")
	if len(log.got) != len(exp) {
		return
	}
	for i, e := range exp {
		zz.Assert(c04same(log.got[i].msg, e.msg), "listen:message-bytes")
		t1, t2 := int32(k1), int32(k1)+int32(k2)
		if len(e.msg) > 0 && e.msg[0] == 0xF0 {
			lo, hi := t2, t2
			if e.from < cut {
				lo = t1
			}
			if e.to < cut {
				hi = t1
			}
			zz.Assert(log.got[i].ts >= lo && log.got[i].ts <= hi, "listen:sysex-timestamp")
		} else {
			want := t2
			if e.to < cut {
				want = t1
			}
			zz.Assert(log.got[i].ts == want, "listen:timestamp")
		}
	}
	zz.Reach("end")
}

// VerifC07Loop: every constructor's message sent through the loopback arrives with the same bytes.
func VerifC07Loop() {
	m, _ := c04msg("m", 7)
	drv := New("loop")
	ins, _ := drv.Ins()
	outs, _ := drv.Outs()
	var log c04log
	stop, err := midi.ListenTo(ins[0], log.recv, midi.UseSysEx(), midi.UseTimeCode(), midi.UseActiveSense())
	zz.Assert(err == nil, "listen:ok")
	outs[0].Open()
	zz.Assert(outs[0].Send(m) == nil, "send:ok")
	stop()
	zz.Assert(len(log.got) == 1, "loop:exactly-one-message")
	if len(log.got) == 1 {
		zz.Assert(c04same(log.got[0].msg, m), "loop:same-value")
	}
	zz.Reach("end")
}

var _ = drivers.ErrPortClosed
