package testdrv

import (
	"time"

	"gitlab.com/gomidi/midi/v2"
	"gitlab.com/gomidi/midi/v2/drivers"
	zz "gitlab.com/gomidi/midi/v2/internal/zzverif"
)

// VerifC14Filter: the same byte stream and chunking into two loopback drivers, A with all listen options,
// B with a symbolic subset: B's messages are exactly A's minus the classes whose option is off
// (class decided from the first byte: FE active sense, F8 timing clock, F0 sysex), unchanged otherwise.
func VerifC14Filter() {
	n := zz.Param("n")
	stream := zz.Bytes("stream", n)
	cut := zz.Choice("cut", n+1)
	k1, k2 := zz.U16("sleep1"), zz.U16("sleep2")
	as, tc, sx := zz.Choice("activesense", 2) == 1, zz.Choice("timecode", 2) == 1, zz.Choice("sysex", 2) == 1

	run := func(opts []midi.Option) (log c04log, panicked bool) {
		drv := New("loop")
		ins, _ := drv.Ins()
		outs, _ := drv.Outs()
		panicked = zz.Panics(func() {
			stop, err := midi.ListenTo(ins[0], log.recv, opts...)
			zz.Assert(err == nil, "filter:listen-ok")
			outs[0].Open()
			drv.Sleep(time.Duration(k1) * time.Millisecond)
			outs[0].Send(stream[:cut])
			drv.Sleep(time.Duration(k2) * time.Millisecond)
			outs[0].Send(stream[cut:])
			stop()
		})
		return
	}
	// a small sysex buffer so that the buffer limit is inside the explored lengths
	all := []midi.Option{midi.UseActiveSense(), midi.UseTimeCode(), midi.UseSysEx(), midi.SysExBufferSize(uint32(zz.Param("sxbuf")))}
	sub := []midi.Option{midi.SysExBufferSize(uint32(zz.Param("sxbuf")))}
	if as {
		sub = append(sub, midi.UseActiveSense())
	}
	if tc {
		sub = append(sub, midi.UseTimeCode())
	}
	if sx {
		sub = append(sub, midi.UseSysEx())
	}
	a, pa := run(all)
	b, pb := run(sub)
	zz.Assert(!pa && !pb, "filter:no-panic")
	if pa || pb {
		return
	}
	// projection of run A
	var want []c04got
	for _, g := range a.got {
		if len(g.msg) == 0 {
			continue // (an empty message has no class; its existence is C06's business)
		}
		switch {
		case g.msg[0] == 0xFE && !as:
			continue
		case g.msg[0] == 0xF8 && !tc:
			continue
		case g.msg[0] == 0xF0 && !sx:
			continue
		}
		want = append(want, g)
	}
	var have []c04got
	for _, g := range b.got {
		if len(g.msg) != 0 {
			have = append(have, g)
		}
	}
	zz.Assert(len(have) == len(want), "filter:same-count")
	if len(have) != len(want) {
		return
	}
	for i := range want {
		zz.Assert(c04same(have[i].msg, want[i].msg), "filter:content-unchanged")
		zz.Assert(have[i].ts == want[i].ts, "filter:timestamp-unchanged")
	}
	zz.Reach("end")
}

// ---- C17: port lifecycle on the in-memory driver against the lifecycle model (DESIGN.md Appendix C.3) ----

func VerifC17Hist() {
	k := zz.Param("k")
	drv := New("life")
	ins, _ := drv.Ins()
	outs, _ := drv.Outs()
	in, out := ins[0], outs[0]

	// model
	inOpen, outOpen, listening := false, false, false
	var logs []*c04log // one per Listen call
	cur := -1
	var stop, staleStop func()
	var expect [][]byte // what the current listener must have received so far (per listener)
	var expAll [][][]byte

	if zz.Choice("out-port-open-at-the-start", 2) == 1 {
		zz.Assert(out.Open() == nil, "out.Open:nil")
		outOpen = true
	}
	for step := 0; step < k; step++ {
		switch zz.Choice("call", 7+zz.Param("stale")) {
		case 7: // the stop function of an earlier, already stopped listening is called once more: no effect
			if staleStop == nil {
				continue
			}
			staleStop()
		case 0:
			zz.Assert(in.Open() == nil, "in.Open:nil")
			inOpen = true
		case 1:
			if listening {
				continue // protocol: stop before closing the in port
			}
			zz.Assert(in.Close() == nil, "in.Close:nil")
			inOpen = false
		case 2:
			zz.Assert(out.Open() == nil, "out.Open:nil")
			outOpen = true
		case 3:
			zz.Assert(out.Close() == nil, "out.Close:nil")
			outOpen = false
		case 4: // listen (midi.ListenTo opens the in port if needed)
			if listening {
				continue // protocol: one listener at a time
			}
			if cur >= 0 {
				expAll[cur] = expect
			}
			lg := &c04log{}
			var err error
			staleStop = stop
			stop, err = midi.ListenTo(in, lg.recv, midi.UseSysEx(), midi.UseTimeCode(), midi.UseActiveSense())
			zz.Assert(err == nil && stop != nil, "listen:ok")
			logs = append(logs, lg)
			expAll = append(expAll, nil)
			cur = len(logs) - 1
			expect = nil
			inOpen, listening = true, true
		case 5: // stop (idempotent)
			if stop == nil {
				continue
			}
			stop()
			listening = false
		case 6:
			key, vel := zz.U8("key")&0x7F, zz.U8("vel")&0x7F
			m := midi.NoteOn(3, key, vel)
			var err error
			panicked := zz.Panics(func() { err = out.Send(m) })
			zz.Assert(!panicked, "send:no-panic")
			if panicked {
				return
			}
			switch {
			case !outOpen:
				zz.Assert(err == drivers.ErrPortClosed, "send:closed-port-error")
			case listening:
				zz.Assert(err == nil, "send:ok-while-listening")
				expect = append(expect, []byte{0x93, key, vel})
			default:
				zz.Assert(err == nil, "send:dropped-without-failure")
			}
		}
		zz.Assert(in.IsOpen() == inOpen, "in.IsOpen")
		zz.Assert(out.IsOpen() == outOpen, "out.IsOpen")
	}
	if cur >= 0 {
		expAll[cur] = expect
	}
	for i, lg := range logs {
		zz.Assert(len(lg.got) == len(expAll[i]), "delivered-exactly-once-while-listening")
		if len(lg.got) != len(expAll[i]) {
			continue
		}
		for j := range lg.got {
			zz.Assert(c04same(lg.got[j].msg, expAll[i][j]), "delivered-in-order-unchanged")
		}
	}
	zz.Reach("end")
}

// VerifC17Relisten: S listening sessions on the same port pair, each with its own receiver, its own sysex option
// and its own sysex buffer size: every session behaves like a first session with those settings.
func VerifC17Relisten() {
	S := zz.Param("S")
	drv := New("relisten")
	ins, _ := drv.Ins()
	outs, _ := drv.Outs()
	in, out := ins[0], outs[0]
	zz.Assert(out.Open() == nil, "out.Open:nil")
	for s := 0; s < S; s++ {
		bufsize := []int{4, 16}[zz.Choice("sysex-buffer", 2)]
		sysexOn := zz.Choice("sysex-option", 2) == 1
		opts := []midi.Option{midi.SysExBufferSize(uint32(bufsize))}
		if sysexOn {
			opts = append(opts, midi.UseSysEx())
		}
		lg := &c04log{}
		stop, err := midi.ListenTo(in, lg.recv, opts...)
		zz.Assert(err == nil && stop != nil, "listen:ok")
		if err != nil || stop == nil {
			return
		}
		L := []int{4, 10}[zz.Choice("sysex-length", 2)]
		sx := make([]byte, L)
		sx[0], sx[L-1] = 0xF0, 0xF7
		for i := 1; i < L-1; i++ {
			sx[i] = zz.U8("sx") & 0x7F
		}
		key := zz.U8("key") & 0x7F
		zz.Assert(out.Send(sx) == nil, "send:ok-while-listening")
		zz.Assert(out.Send(midi.NoteOn(1, key, 1)) == nil, "send:ok-while-listening")
		stop()
		var want [][]byte
		if sysexOn && L <= bufsize {
			want = append(want, sx)
		}
		want = append(want, []byte{0x91, key, 1})
		zz.Assert(len(lg.got) == len(want), "relisten:session-receives-what-its-own-settings-allow")
		if len(lg.got) == len(want) {
			for j := range want {
				zz.Assert(c04same(lg.got[j].msg, want[j]), "relisten:delivered-in-order-unchanged")
			}
		}
	}
	zz.Reach("end")
}
