package drivers

// C06, inductive step: from ANY decoder state that satisfies the representation invariant and is related to a
// state of the receiver model, one arbitrary byte (with an arbitrary delay) produces the same messages in both
// and re-establishes invariant and relation. Together with VerifC06Reset (which visits states from reset and
// checks the same relation on them) this extends the claim to streams of any length.

import (
	zz "gitlab.com/gomidi/midi/v2/internal/zzverif"
)

// c06inv: representation invariant of Reader (states reachable from Reset, after the repairs).
func c06inv(r *Reader) bool {
	B := int(r.SysExBufferSize)
	switch r.state {
	case readerStateClean:
		return zz.And(!r.issetBf, r.statusByte == 0 || (r.statusByte >= 0x80 && r.statusByte <= 0xEF),
			zz.Implies(r.statusByte != 0, r.typ == r.statusByte>>4))
	case readerStateWithinChannelMessage:
		return zz.And(r.statusByte >= 0x80, r.statusByte <= 0xEF, r.typ == r.statusByte>>4,
			zz.Implies(r.issetBf, r.typ != 0xC && r.typ != 0xD), zz.Implies(r.issetBf, r.bf < 0x80))
	case readerStateWithinSysCommon:
		return zz.And(r.statusByte == 0, r.typ == 0xF1 || r.typ == 0xF2 || r.typ == 0xF3,
			zz.Implies(r.issetBf, r.typ == 0xF2), zz.Implies(r.issetBf, r.bf < 0x80))
	case readerStateInSysEx:
		if !r.HandleSysex {
			return zz.And(r.statusByte == 0, !r.issetBf)
		}
		return zz.And(r.statusByte == 0, !r.issetBf, len(r.sysexBf) == B, r.sysexlen >= 1, r.sysexlen <= B-1 || r.sysexlen == 1)
	case readerStateWithinUnknown:
		return zz.And(r.statusByte == 0, !r.issetBf)
	}
	return false
}

// c06sim: simulation relation between implementation state and model state.
func c06sim(r *Reader, m *ZZRefRecv) bool {
	if r.ts_ms != m.now || int(r.SysExBufferSize) != m.B || r.HandleSysex != m.KeepSysex {
		return false
	}
	switch r.state {
	case readerStateClean:
		return zz.And(m.mode == zzIdle, m.rs == r.statusByte, !m.hasD1)
	case readerStateWithinChannelMessage:
		return zz.And(m.mode == zzChan, m.cur == r.statusByte, m.rs == r.statusByte, m.need == zzNeed(r.statusByte),
			m.hasD1 == r.issetBf, zz.Implies(r.issetBf, m.d1 == r.bf), zz.Implies(m.hasD1, m.need == 2))
	case readerStateWithinSysCommon:
		return zz.And(m.mode == zzSys, m.cur == r.typ, m.rs == 0, m.need == zzNeed(r.typ), m.hasD1 == r.issetBf, zz.Implies(r.issetBf, m.d1 == r.bf),
			zz.Implies(m.hasD1, m.need == 2))
	case readerStateInSysEx:
		if !r.HandleSysex {
			return zz.And(m.mode == zzSysex || m.mode == zzSysexOverflow, m.rs == 0)
		}
		if m.mode != zzSysex || len(m.buf) != r.sysexlen || m.rs != 0 || m.t0 != r.sysexTS {
			return false
		}
		conds := []bool{}
		for i := 0; i < r.sysexlen; i++ {
			conds = append(conds, r.sysexBf[i] == m.buf[i])
		}
		return zz.And(conds...)
	case readerStateWithinUnknown:
		// undefined status skipped, or a sysex that outgrew the buffer (the model may still be inside its tolerance band)
		if m.rs != 0 {
			return false
		}
		if m.mode == zzSkip || m.mode == zzSysexOverflow {
			return true
		}
		return m.mode == zzSysex && r.HandleSysex && len(m.buf) >= int(r.SysExBufferSize)
	}
	return false
}

func VerifC06Step() {
	B := zz.Param("B")
	keep := zz.Choice("sysex-option", 2) == 1
	var rec c06rec
	r := &Reader{SysExBufferSize: uint32(B), HandleSysex: keep, OnMsg: rec.on}
	m := &ZZRefRecv{B: B, KeepSysex: keep}
	// arbitrary state
	r.state = readerState(zz.Choice("state", 5))
	r.statusByte, r.typ, r.bf = zz.U8("statusByte"), zz.U8("typ"), zz.U8("bf")
	r.issetBf = zz.Bool("issetBf")
	r.ts_ms, r.sysexTS = zz.I32("ts"), zz.I32("sysexTS")
	zz.Assume(r.ts_ms >= 0 && r.ts_ms <= 1000000 && r.sysexTS >= 0 && r.sysexTS <= r.ts_ms)
	if r.state == readerStateInSysEx && keep {
		r.sysexBf = make([]byte, B)
		r.sysexlen = 1 + zz.Choice("sysexlen", B)
		for i := 0; i < r.sysexlen && i < B; i++ {
			r.sysexBf[i] = zz.U8("sx")
		}
		zz.Assume(r.sysexBf[0] == 0xF0)
		for i := 1; i < r.sysexlen && i < B; i++ {
			zz.Assume(r.sysexBf[i] < 0x80)
		}
	}
	m.mode = zz.Choice("ref-mode", 6)
	m.rs, m.cur, m.d1 = zz.U8("ref-rs"), zz.U8("ref-cur"), zz.U8("ref-d1")
	m.hasD1 = zz.Bool("ref-hasD1")
	m.need = 1 + zz.Choice("ref-need", 2)
	m.now, m.t0 = r.ts_ms, r.sysexTS
	if m.mode == zzSysex {
		n := 1 + zz.Choice("ref-buflen", B+1)
		m.buf = make([]byte, n)
		for i := range m.buf {
			if r.state == readerStateInSysEx && keep && i < r.sysexlen {
				m.buf[i] = r.sysexBf[i]
			} else {
				m.buf[i] = zz.U8("refsx")
			}
		}
		zz.Assume(m.buf[0] == 0xF0)
	}
	zz.Assume(c06inv(r))
	zz.Assume(c06sim(r, m))
	zz.Reach("state-satisfies-invariant-and-relation")

	b := zz.U8("byte")
	d := zz.I32("delay")
	zz.Assume(d >= 0 && d <= 1000)
	m.Deliver([]byte{b}, d)
	panicked := zz.Panics(func() { r.EachMessage([]byte{b}, d) })
	zz.Assert(!panicked, "step:no-panic")
	if panicked {
		return
	}
	c06wellformed(rec.msgs, "step")
	c06compare(rec.msgs, m, "step")
	zz.Assert(c06inv(r), "step:invariant-preserved")
	zz.Assert(c06sim(r, m), "step:relation-preserved")
	zz.Reach("end")
}
