package midicatdrv

// C17 (process-backed driver, sequential part): no call blocks forever, also when the backing process cannot
// be started; open/close stay consistent. Goroutine schedules and data races are NOT analysed (see DESIGN.md).

import (
	"os"
	"path/filepath"

	zz "gitlab.com/gomidi/midi/v2/internal/zzverif"
)

// The package's init() needs a "midicat" binary that answers "version"; natively a stand-in script is put on
// PATH before init() runs (package-level variables are initialised first). Under the engine nothing is done.
var zzStandInDir = zzInstallStandIn()

const zzStandIn = `#!/bin/sh
case "$1" in
version) printf '0.6.8' ;;
ins|outs) printf '{"0":"standin"}' ;;
out) exec cat >/dev/null ;;
in) exec sleep 600 ;;
esac
`

func zzInstallStandIn() string {
	if zz.Symbolic() {
		return ""
	}
	dir, err := os.MkdirTemp("", "verif-midicat")
	if err != nil {
		panic(err)
	}
	if err := os.WriteFile(filepath.Join(dir, "midicat"), []byte(zzStandIn), 0o755); err != nil {
		panic(err)
	}
	zzPathWithHelper = dir + string(os.PathListSeparator) + os.Getenv("PATH")
	os.Setenv("PATH", zzPathWithHelper)
	return dir
}

var zzPathWithHelper string

func zzHideHelper(hide bool) {
	if zz.Symbolic() {
		return
	}
	if hide {
		os.Setenv("PATH", "/nonexistent-verif")
	} else {
		os.Setenv("PATH", zzPathWithHelper) // several vectors run in one process: always restore
	}
}

// VerifC17Open: Open / IsOpen / Close on an in or out port when the helper process can or cannot be started.
func VerifC17Open() {
	zz.IgnoreGo()
	fails := zz.Bool("process-cannot-be-started")
	zz.Oracle("process-cannot-be-started", fails)
	zzHideHelper(fails)
	drv := &Driver{}
	if zz.Choice("port", 2) == 0 {
		p := newOut(drv, 0, "out")
		var err error
		ok := zz.Within(3, func() { err = p.Open() })
		zz.Assert(ok, "out.Open:returns")
		if !ok {
			return
		}
		zz.Assert((err != nil) == fails, "out.Open:error-iff-process-cannot-be-started")
		zz.Assert(p.IsOpen() == !fails, "out.Open:open-iff-started")
		ok = zz.Within(3, func() { err = p.Open() })
		zz.Assert(ok, "out.Open-again:returns")
		if ok && !fails {
			zz.Assert(err == nil, "out.Open:idempotent")
		}
		ok = zz.Within(3, func() { err = p.Close() })
		zz.Assert(ok, "out.Close:returns")
		if ok {
			zz.Assert(!p.IsOpen(), "out.Close:closed")
		}
	} else {
		p := newIn(drv, 0, "in")
		var err error
		ok := zz.Within(3, func() { err = p.Open() })
		zz.Assert(ok, "in.Open:returns-even-when-the-process-cannot-be-started")
		if !ok {
			return
		}
		zz.Assert((err != nil) == fails, "in.Open:error-iff-process-cannot-be-started")
		zz.Assert(p.IsOpen() == !fails, "in.Open:open-iff-started")
	}
	zz.Reach("end")
}
