package drivers

// C14, relational inductive step: two decoders, A with the sysex option on and B with a symbolic option, in
// related states receive the same byte with the same delay: B's messages are A's messages minus the sysex
// class, unchanged otherwise, and the relation is re-established — for byte streams of any length.
// (The active-sense and timing-clock options are stateless per-message filters in the drivers; their effect is
// decided on bounded streams by VerifC14Filter.)

import (
	zz "gitlab.com/gomidi/midi/v2/internal/zzverif"
)

func c14symReader(name string, B int, keep bool, rec *c06rec) *Reader {
	r := &Reader{SysExBufferSize: uint32(B), HandleSysex: keep, OnMsg: rec.on}
	r.state = readerState(zz.Choice(name+"-state", 5))
	r.statusByte, r.typ, r.bf = zz.U8(name+"-statusByte"), zz.U8(name+"-typ"), zz.U8(name+"-bf")
	r.issetBf = zz.Bool(name + "-issetBf")
	if r.state == readerStateInSysEx && keep {
		r.sysexBf = make([]byte, B)
		r.sysexlen = 1 + zz.Choice(name+"-sysexlen", B)
		for i := 0; i < r.sysexlen && i < B; i++ {
			r.sysexBf[i] = zz.U8(name + "-sx")
		}
		zz.Assume(r.sysexBf[0] == 0xF0)
		for i := 1; i < r.sysexlen && i < B; i++ {
			zz.Assume(r.sysexBf[i] < 0x80)
		}
	}
	return r
}

// the message type field is only meaningful inside a message or while a running status is in force
func c14typMatters(a, b *Reader) bool {
	live := a.state == readerStateWithinChannelMessage || a.state == readerStateWithinSysCommon || a.statusByte != 0
	return zz.Implies(live, a.typ == b.typ)
}

func c14rel(a, b *Reader) bool {
	if a.ts_ms != b.ts_ms || a.statusByte != b.statusByte {
		return false
	}
	if b.HandleSysex {
		// identical machines: identical states
		if a.state != b.state || a.sysexlen != b.sysexlen || a.sysexTS != b.sysexTS {
			return false
		}
		conds := []bool{c14typMatters(a, b), a.issetBf == b.issetBf, zz.Implies(a.issetBf, a.bf == b.bf)}
		if a.state == readerStateInSysEx {
			for i := 0; i < a.sysexlen; i++ {
				conds = append(conds, a.sysexBf[i] == b.sysexBf[i])
			}
		}
		return zz.And(conds...)
	}
	switch {
	case a.state == b.state:
		return zz.And(c14typMatters(a, b), a.issetBf == b.issetBf, zz.Implies(a.issetBf, a.bf == b.bf))
	case a.state == readerStateWithinUnknown && b.state == readerStateInSysEx:
		return true // A dropped a sysex that outgrew its buffer; B, not collecting, is still inside it
	}
	return false
}

func VerifC14Step() {
	B := zz.Param("B")
	keepB := zz.Choice("sysex-option-of-B", 2) == 1
	var ra, rb c06rec
	a := c14symReader("a", B, true, &ra)
	b := c14symReader("b", B, keepB, &rb)
	a.ts_ms = zz.I32("ts")
	zz.Assume(a.ts_ms >= 0 && a.ts_ms <= 1000000)
	b.ts_ms = a.ts_ms
	a.sysexTS = zz.I32("sysexTS")
	zz.Assume(a.sysexTS >= 0 && a.sysexTS <= a.ts_ms)
	b.sysexTS = a.sysexTS
	zz.Assume(c06inv(a))
	zz.Assume(c06inv(b))
	zz.Assume(c14rel(a, b))
	zz.Reach("related-states")

	x := zz.U8("byte")
	d := zz.I32("delay")
	zz.Assume(d >= 0 && d <= 1000)
	pa := zz.Panics(func() { a.EachMessage([]byte{x}, d) })
	pb := zz.Panics(func() { b.EachMessage([]byte{x}, d) })
	zz.Assert(!pa && !pb, "step:no-panic")
	if pa || pb {
		return
	}
	// projection: drop the sysex class from A's output when B has the option off; raw F7 notifications are no messages
	var want []ZZMsg
	for _, m := range c06strip(ra.msgs) {
		if len(m.Bytes) > 0 && m.Bytes[0] == 0xF0 && !keepB {
			continue
		}
		want = append(want, m)
	}
	have := c06strip(rb.msgs)
	zz.Assert(len(have) == len(want), "step:same-messages-minus-sysex-class")
	if len(have) == len(want) {
		for i := range want {
			zz.Assert(c06sameBytes(have[i].Bytes, want[i].Bytes), "step:content-unchanged")
			zz.Assert(have[i].TS == want[i].TS, "step:timestamp-unchanged")
		}
	}
	zz.Assert(c06inv(a) && c06inv(b), "step:invariants-preserved")
	zz.Assert(c14rel(a, b), "step:relation-preserved")
	zz.Reach("end")
}
