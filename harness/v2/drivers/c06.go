package drivers

// C06: the live decoder survives arbitrary bytes and behaves as the MIDI 1.0 receiver model.
// C04 (Reader level): structured message sequences are decoded exactly.

import (
	zz "gitlab.com/gomidi/midi/v2/internal/zzverif"
)

type c06rec struct {
	msgs []ZZMsg
}

// the callback keeps the slice it was handed (no copy): messages must not share storage with later ones
func (c *c06rec) on(b []byte, ts int32) {
	c.msgs = append(c.msgs, ZZMsg{Bytes: b, TS: ts})
}

func c06sameBytes(a, b []byte) bool {
	if len(a) != len(b) {
		return false
	}
	conds := make([]bool, 0, len(a))
	for i := range a {
		conds = append(conds, a[i] == b[i])
	}
	return zz.And(conds...)
}

// drop the implementation's raw "F7 00 00" notification (its internal running-status-cancel signal)
func c06strip(in []ZZMsg) (out []ZZMsg) {
	for _, m := range in {
		if len(m.Bytes) == 3 && m.Bytes[0] == 0xF7 {
			continue
		}
		out = append(out, m)
	}
	return
}

// compare a raw driver message (possibly zero padded to 3 bytes) with a reference message
func c06match(impl, ref ZZMsg, id string) {
	st := ref.Bytes[0]
	switch {
	case st == 0xF0:
		zz.Assert(c06sameBytes(impl.Bytes, ref.Bytes), id+":sysex-bytes")
		zz.Assert(impl.TS >= ref.TS0 && impl.TS <= ref.TS, id+":sysex-timestamp-between-first-and-last-byte")
	case st >= 0xF8:
		zz.Assert(len(impl.Bytes) == 1 && impl.Bytes[0] == st, id+":realtime-bytes")
		zz.Assert(impl.TS == ref.TS, id+":timestamp")
	default:
		zz.Assert(len(impl.Bytes) >= len(ref.Bytes) && len(impl.Bytes) <= 3, id+":length")
		if len(impl.Bytes) >= len(ref.Bytes) {
			zz.Assert(c06sameBytes(impl.Bytes[:len(ref.Bytes)], ref.Bytes), id+":status-and-data")
			for i := len(ref.Bytes); i < len(impl.Bytes); i++ {
				zz.Assert(impl.Bytes[i] == 0, id+":padding-is-zero")
			}
		}
		zz.Assert(impl.TS == ref.TS, id+":timestamp")
	}
}

func c06compare(impl []ZZMsg, ref *ZZRefRecv, id string) {
	impl = c06strip(impl)
	exp := ref.Out
	if len(ref.Band) == 0 {
		zz.Assert(len(impl) == len(exp), id+":message-count")
		if len(impl) != len(exp) {
			return
		}
		for i := range exp {
			c06match(impl[i], exp[i], id)
		}
		return
	}
	// tolerance band at the buffer limit: each band message may be dropped or delivered intact; nothing else
	zz.Assert(len(impl) >= len(exp) && len(impl) <= len(exp)+len(ref.Band), id+":message-count-within-band")
	for _, m := range impl {
		zz.Assert(len(m.Bytes) > 0 && m.Bytes[0] >= 0x80, id+":wellformed-in-band")
	}
}

// every delivered raw message is non-empty and well formed: status first, then only data bytes
func c06wellformed(impl []ZZMsg, id string) {
	for _, m := range impl {
		zz.Assert(len(m.Bytes) >= 1, id+":non-empty")
		if len(m.Bytes) == 0 {
			continue
		}
		zz.Assert(m.Bytes[0] >= 0x80, id+":status-first")
		if m.Bytes[0] == 0xF0 {
			zz.Assert(m.Bytes[len(m.Bytes)-1] == 0xF7, id+":sysex-terminated")
			for i := 1; i < len(m.Bytes)-1; i++ {
				zz.Assert(m.Bytes[i] < 0x80, id+":sysex-data-only")
			}
		} else {
			for i := 1; i < len(m.Bytes); i++ {
				zz.Assert(m.Bytes[i] < 0x80, id+":data-bytes-only")
			}
		}
	}
}

// VerifC06Reset: n fully symbolic bytes from the reset state, each delivered with its own symbolic delay.
func VerifC06Reset() {
	n := zz.Param("n")
	B := zz.Param("B")
	keep := zz.Choice("sysex-option", 2) == 1
	var rec c06rec
	rd := NewReader(ListenConfig{SysEx: keep, SysExBufferSize: uint32(B), TimeCode: true, ActiveSense: true}, rec.on)
	ref := &ZZRefRecv{B: B, KeepSysex: keep}
	panicked := false
	for i := 0; i < n; i++ {
		b := zz.U8("b")
		d := zz.I32("d")
		zz.Assume(d >= 0 && d <= 1000)
		ref.Deliver([]byte{b}, d)
		if zz.Panics(func() { rd.EachMessage([]byte{b}, d) }) {
			panicked = true
			break
		}
		// every state visited from reset satisfies the invariant and the relation the inductive step starts from
		zz.Assert(c06inv(rd), "reset:invariant-holds-on-reachable-state")
		zz.Assert(c06sim(rd, ref), "reset:relation-holds-on-reachable-state")
	}
	zz.Assert(!panicked, "reset:no-panic")
	if panicked {
		return
	}
	c06wellformed(rec.msgs, "reset")
	c06compare(rec.msgs, ref, "reset")
	zz.Reach("end")
}

// VerifC06LongSysex: one sysex of L bytes in total (symbolic data) followed by a note-on, delivered in `chunk`-byte
// pieces: lengths around the powers of two and around the buffer limit, which short symbolic streams never reach.
func VerifC06LongSysex() {
	L, B, cfgB, chunk := zz.Param("L"), zz.Param("B"), zz.Param("cfgB"), zz.Param("chunk")
	keep := zz.Choice("sysex-option", 2) == 1
	var rec c06rec
	rd := NewReader(ListenConfig{SysEx: keep, SysExBufferSize: uint32(cfgB), TimeCode: true, ActiveSense: true}, rec.on)
	ref := &ZZRefRecv{B: B, KeepSysex: keep}
	stream := make([]byte, 0, L+3)
	stream = append(stream, 0xF0)
	for i := 0; i < L-2; i++ {
		stream = append(stream, zz.U8("data")&0x7F)
	}
	stream = append(stream, 0xF7, 0x90, zz.U8("key")&0x7F, zz.U8("vel")&0x7F)
	panicked := false
	for at := 0; at < len(stream) && !panicked; at += chunk {
		end := at + chunk
		if end > len(stream) {
			end = len(stream)
		}
		d := int32(zz.U8("d"))
		ref.Deliver(stream[at:end], d)
		panicked = zz.Panics(func() { rd.EachMessage(stream[at:end], d) })
	}
	zz.Assert(!panicked, "long:no-panic")
	if panicked {
		return
	}
	c06wellformed(rec.msgs, "long")
	c06compare(rec.msgs, ref, "long")
	zz.Reach("end")
}
