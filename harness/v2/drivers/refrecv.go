package drivers

// MIDI 1.0 receiver model (DESIGN.md Appendix C.2) — the oracle of C04, C06, C13, C14.
// Written from the MIDI 1.0 description of status/data bytes; shares no code with Reader.

type ZZMsg struct {
	Bytes []byte
	TS    int32
	TS0   int32 // sysex: time of the F0 byte
}

const (
	zzIdle = iota
	zzChan
	zzSys
	zzSysex
	zzSysexOverflow
	zzSkip
)

type ZZRefRecv struct {
	B         int // sysex buffer size (total bytes F0..F7 that fit)
	KeepSysex bool
	mode      int
	rs        byte
	cur       byte
	need      int
	d1        byte
	hasD1     bool
	buf       []byte
	now       int32
	t0        int32
	Out       []ZZMsg
	// Band: a sysex whose total length exceeded B by at most 2 was seen (either drop or intact delivery is accepted)
	Band []ZZMsg
}

func zzNeed(st byte) int {
	switch {
	case st >= 0x80 && st <= 0xEF:
		if st&0xF0 == 0xC0 || st&0xF0 == 0xD0 {
			return 1
		}
		return 2
	case st == 0xF1 || st == 0xF3:
		return 1
	case st == 0xF2:
		return 2
	}
	return 0
}

func (r *ZZRefRecv) emit(b []byte, ts int32) { r.Out = append(r.Out, ZZMsg{Bytes: b, TS: ts, TS0: ts}) }

func (r *ZZRefRecv) abandon() {
	r.cur, r.need, r.hasD1, r.buf = 0, 0, false, nil
}

// Deliver feeds one chunk that arrives delta milliseconds after the previous one.
func (r *ZZRefRecv) Deliver(chunk []byte, delta int32) {
	r.now += delta
	for _, b := range chunk {
		r.Byte(b)
	}
}

func (r *ZZRefRecv) Byte(b byte) {
	switch {
	case b >= 0xF8:
		r.emit([]byte{b}, r.now)
	case b >= 0x80 && b <= 0xEF:
		r.abandon()
		r.rs, r.cur = b, b
		r.need = zzNeed(b)
		r.mode = zzChan
	case b == 0xF0:
		r.abandon()
		r.rs = 0
		r.buf = []byte{0xF0}
		r.t0 = r.now
		r.mode = zzSysex
		if r.B < 1 {
			r.mode = zzSysexOverflow
		}
	case b == 0xF7:
		if r.mode == zzSysex || r.mode == zzSysexOverflow {
			total := len(r.buf) + 1
			if r.mode == zzSysexOverflow {
				total = r.B + 3 // certainly too long
			}
			msg := ZZMsg{Bytes: append(append([]byte{}, r.buf...), 0xF7), TS: r.now, TS0: r.t0}
			if r.KeepSysex {
				if total <= r.B {
					r.Out = append(r.Out, msg)
				} else if total <= r.B+2 && r.mode == zzSysex {
					r.Band = append(r.Band, msg)
				}
			}
		}
		r.abandon()
		r.rs = 0
		r.mode = zzIdle
	case b == 0xF1 || b == 0xF2 || b == 0xF3:
		r.abandon()
		r.rs = 0
		r.cur = b
		r.need = zzNeed(b)
		r.mode = zzSys
	case b == 0xF6:
		r.abandon()
		r.rs = 0
		r.emit([]byte{0xF6}, r.now)
		r.mode = zzIdle
	case b == 0xF4 || b == 0xF5:
		r.abandon()
		r.rs = 0
		r.mode = zzSkip
	default: // data byte
		switch r.mode {
		case zzChan, zzSys:
			r.data(b)
		case zzIdle:
			if r.rs != 0 {
				r.cur = r.rs
				r.need = zzNeed(r.rs)
				r.mode = zzChan
				r.data(b)
			}
		case zzSysex:
			// buf may hold up to B+1 bytes before F7 so that totals within the tolerance band stay intact
			if len(r.buf) < r.B+1 {
				r.buf = append(r.buf, b)
			} else {
				r.mode = zzSysexOverflow
			}
		}
	}
}

func (r *ZZRefRecv) data(b byte) {
	if r.need == 2 && !r.hasD1 {
		r.d1, r.hasD1 = b, true
		return
	}
	if r.hasD1 {
		r.emit([]byte{r.cur, r.d1, b}, r.now)
	} else {
		r.emit([]byte{r.cur, b}, r.now)
	}
	r.hasD1 = false
	r.mode = zzIdle
	r.cur = 0
}
