package midi

// C08: classification is total, unambiguous and consistent with the accessors (midi.Message).

import (
	zz "gitlab.com/gomidi/midi/v2/internal/zzverif"
)

var c08concrete = []Type{TickMsg, TimingClockMsg, StartMsg, ContinueMsg, StopMsg, ActiveSenseMsg, ResetMsg,
	NoteOnMsg, NoteOffMsg, ControlChangeMsg, PitchBendMsg, AfterTouchMsg, PolyAfterTouchMsg, ProgramChangeMsg,
	MTCMsg, SongSelectMsg, SPPMsg, TuneMsg}

func c08count(bs ...bool) int {
	n := 0
	for _, b := range bs {
		if b {
			n++
		}
	}
	return n
}

// VerifC08Midi: every byte string of length n (param), all byte values.
func VerifC08Midi() {
	n := zz.Param("n")
	m := Message(zz.Bytes("m", n))
	t := m.Type()
	// category membership: exactly one
	isCh, isSc, isRt, isSx, isUn := m.Is(ChannelMsg), m.Is(SysCommonMsg), m.Is(RealTimeMsg), m.Is(SysExMsg), m.Is(UnknownMsg)
	zz.Assert(c08count(isCh, isSc, isRt, isSx, isUn) == 1, "exactly-one-category")
	_ = m.IsPlayable()
	_ = m.String()
	zz.Assert(m.IsOneOf(ChannelMsg, SysCommonMsg, RealTimeMsg, SysExMsg, UnknownMsg), "isoneof-categories")
	// Is(t) <=> Type()==t for concrete types
	for _, ct := range c08concrete {
		zz.Assert(m.Is(ct) == (t == ct), "is-iff-type")
	}
	// accessors
	var a, b, c uint8
	var r int16
	var u uint16
	var bt []byte
	gOn := m.GetNoteOn(&a, &b, &c)
	gOff := m.GetNoteOff(&a, &b, &c)
	gPat := m.GetPolyAfterTouch(&a, &b, &c)
	gCC := m.GetControlChange(&a, &b, &c)
	gPC := m.GetProgramChange(&a, &b)
	gAT := m.GetAfterTouch(&a, &b)
	gPB := m.GetPitchBend(&a, &r, &u)
	gMTC := m.GetMTC(&a)
	gSPP := m.GetSPP(&u)
	gSS := m.GetSongSelect(&a)
	gSX := m.GetSysEx(&bt)
	zz.Assert(c08count(gOn, gOff, gPat, gCC, gPC, gAT, gPB, gMTC, gSPP, gSS, gSX) <= 1, "at-most-one-accessor")
	zz.Assert(!gOn || t == NoteOnMsg, "accepts-only-own-type:NoteOn")
	zz.Assert(!gOff || t == NoteOffMsg, "accepts-only-own-type:NoteOff")
	zz.Assert(!gPat || t == PolyAfterTouchMsg, "accepts-only-own-type:PolyAfterTouch")
	zz.Assert(!gCC || t == ControlChangeMsg, "accepts-only-own-type:ControlChange")
	zz.Assert(!gPC || t == ProgramChangeMsg, "accepts-only-own-type:ProgramChange")
	zz.Assert(!gAT || t == AfterTouchMsg, "accepts-only-own-type:AfterTouch")
	zz.Assert(!gPB || t == PitchBendMsg, "accepts-only-own-type:PitchBend")
	zz.Assert(!gMTC || t == MTCMsg, "accepts-only-own-type:MTC")
	zz.Assert(!gSPP || t == SPPMsg, "accepts-only-own-type:SPP")
	zz.Assert(!gSS || t == SongSelectMsg, "accepts-only-own-type:SongSelect")
	zz.Assert(!gSX || t == SysExMsg, "accepts-only-own-type:SysEx")
	// derived views: consistent with their definitions
	gCh := m.GetChannel(&a)
	zz.Assert(gCh == (isCh && n >= 1), "getchannel-def")
	gStart := m.GetNoteStart(&a, &b, &c)
	zz.Assert(!gStart || gOn, "notestart-implies-noteon")
	gEnd := m.GetNoteEnd(&a, &b)
	zz.Assert(!gEnd || gOn || gOff, "noteend-implies-note")
	// playability: playable => not unknown
	zz.Assert(!m.IsPlayable() || !isUn, "playable-not-unknown")
	zz.Reach("end")
}
