package sequencer

// C20: sequencer export lays bars end to end and places events on the 32nd-note grid.
// Oracle: bar arithmetic in int (Appendix C.4 of DESIGN.md).

import (
	"gitlab.com/gomidi/midi/v2"
	zz "gitlab.com/gomidi/midi/v2/internal/zzverif"
	"gitlab.com/gomidi/midi/v2/smf"
)

type c20item struct {
	tick int64
	msg  []byte
}

func c20eq(a, b c20item) bool {
	if len(a.msg) != len(b.msg) {
		return false
	}
	conds := []bool{a.tick == b.tick}
	for i := range a.msg {
		conds = append(conds, a.msg[i] == b.msg[i])
	}
	return zz.And(conds...)
}

func c20count(list []c20item, x c20item) int {
	n := 0
	for _, y := range list {
		n += zz.B2I(c20eq(y, x))
	}
	return n
}

// multiset equality without forking on element order
func c20sameMultiset(exp, act []c20item, id string) {
	zz.Assert(len(exp) == len(act), id+":count")
	if len(exp) != len(act) {
		return
	}
	for _, x := range exp {
		zz.Assert(c20count(act, x) == c20count(exp, x), id+":multiset")
	}
}

// collect channel messages and time-signature metas with absolute ticks; check end-of-track placement
func c20collect(sm smf.SMF, endTick int64, id string) (items []c20item) {
	for _, tr := range sm.Tracks {
		var abs int64
		zz.Assert(len(tr) > 0, id+":track-nonempty")
		for i, ev := range tr {
			abs += int64(ev.Delta)
			var ch uint8
			switch {
			case ev.Message.GetChannel(&ch):
				items = append(items, c20item{abs, ev.Message})
			case ev.Message.Is(smf.MetaTimeSigMsg):
				items = append(items, c20item{abs, ev.Message})
			case ev.Message.Is(smf.MetaEndOfTrackMsg):
				zz.Assert(i == len(tr)-1, id+":eot-last")
				zz.Assert(abs == endTick, id+":eot-at-end-of-last-bar")
			}
		}
		zz.Assert(tr.IsClosed(), id+":track-closed")
	}
	return
}

var c20denoms = []uint8{1, 2, 4, 8, 16, 32}
var c20res = []uint16{8, 960, 96, 480, 32760} // nres=1: 32nd note = 1 tick (no multiplications for the solver)

func VerifC20Export() {
	B, E := zz.Param("bars"), zz.Param("events")
	res := c20res[zz.Choice("res", zz.Param("nres"))]
	t32 := int64(res / 8)
	s := New()
	s.Ticks = smf.MetricTicks(res)

	var exp []c20item
	curNum, curDen := uint8(4), uint8(4) // signature in force (4/4 initially)
	start32 := 0                         // start of the current bar in 32nds
	type pending struct{ at32 int }      // note ends, to be assumed inside the song
	var noteEnds []int
	var noteEndsSym []int

	for b := 0; b < B; b++ {
		var bar Bar
		if zz.Choice("sigkind", 2) == 1 {
			num := zz.U8("num")
			den := c20denoms[zz.Choice("den", 6)]
			zz.Assume(num >= 1 && num <= 24)
			zz.Assume(int(num)*32/int(den) <= 255)
			bar.TimeSig = [2]uint8{num, den}
			changed := zz.Or(num != curNum, den != curDen)
			if changed {
				exp = append(exp, c20item{int64(start32) * t32, smf.MetaMeter(num, den)})
			}
			curNum, curDen = num, den
		}
		blen := int(curNum) * 32 / int(curDen)
		for k := 0; k < E && b < zz.Param("evbars"); k++ {
			pos := zz.U8("pos")
			zz.Assume(int(pos) < blen)
			trk := zz.Choice("track", zz.Param("tracks"))
			ch := zz.U8("ch")
			zz.Assume(ch < 16)
			var ev Event
			ev.TrackNo = trk
			ev.Pos = pos
			if zz.Choice("kind", 2) == 0 {
				key, vel, dur := zz.U8("key"), zz.U8("vel"), zz.U8("dur")
				zz.Assume(key < 128 && vel >= 1 && vel < 128)
				ev.Message = smf.Message(midi.NoteOn(ch, key, vel))
				ev.Duration = dur
				exp = append(exp, c20item{int64(start32+int(pos)) * t32, []byte{0x90 | ch, key, vel}})
				if dur > 0 {
					exp = append(exp, c20item{int64(start32+int(pos)+int(dur)) * t32, []byte{0x80 | ch, key, 0}})
					noteEndsSym = append(noteEndsSym, start32+int(pos)+int(dur))
				}
			} else {
				cc, val := zz.U8("cc"), zz.U8("val")
				zz.Assume(cc < 128 && val < 128)
				ev.Message = smf.Message(midi.ControlChange(ch, cc, val))
				exp = append(exp, c20item{int64(start32+int(pos)) * t32, []byte{0xB0 | ch, cc, val}})
			}
			bar.Events = append(bar.Events, &ev)
		}
		s.AddBar(bar)
		start32 += blen
	}
	_ = noteEnds
	for _, e32 := range noteEndsSym {
		zz.Assume(e32 <= start32) // every note ends within the song
	}
	endTick := int64(start32) * t32

	sm0 := s.ToSMF0()
	act0 := c20collect(sm0, endTick, "smf0")
	zz.Assert(len(sm0.Tracks) == 1, "smf0:single-track")
	c20sameMultiset(exp, act0, "smf0")

	sm1 := s.ToSMF1()
	act1 := c20collect(sm1, endTick, "smf1")
	c20sameMultiset(exp, act1, "smf1")

	// exporting again must give the same layout (no state carried over between exports)
	sm0b := s.ToSMF0()
	act0b := c20collect(sm0b, endTick, "smf0-again")
	c20sameMultiset(exp, act0b, "smf0-again")
	zz.Reach("end")
}
