package smf

// C05: reading malformed or truncated SMF data fails cleanly and never fabricates.

import (
	"bytes"

	zz "gitlab.com/gomidi/midi/v2/internal/zzverif"
)

const c05allocLimit = 1 << 16 // bytes per allocation; inputs are < 100 bytes

// read arbitrary bytes: no panic, bounded allocation, result is (nil, err) or (value, nil)
func c05read(file []byte, id string) (s *SMF, err error, ok bool) {
	var panicked bool
	zz.AllocGuard(c05allocLimit, func() {
		panicked = zz.Panics(func() { s, err = ReadFrom(bytes.NewReader(file)) })
	})
	zz.Assert(!panicked, id+":no-panic")
	if panicked {
		return nil, nil, false
	}
	zz.Assert((err != nil && s == nil) || (err == nil && s != nil), id+":error-xor-value")
	return s, err, true
}

// VerifC05Head: the 14 header bytes and the first chunk header fully symbolic (track count limited to 0..3,
// because the reader allocates one empty track per declared track in a loop).
func VerifC05Head() {
	b := zz.Bytes("head", 22)
	zz.Assume(b[10] == 0 && b[11] <= 3)
	c05read(b, "head")
	zz.Reach("end")
}

// VerifC05Body: valid-looking header with symbolic format / track count / division, symbolic chunk type and
// length, then M fully symbolic bytes.
func VerifC05Body() {
	M := zz.Param("M")
	format, div := zz.U16("format"), zz.U16("division")
	ntrks := uint16(zz.Choice("ntrks", 4))
	file := c02header(format, ntrks, div)
	file = append(file, zz.Bytes("chunktype", 4)...)
	file = append(file, zz.Bytes("chunklen", 4)...)
	file = append(file, zz.Bytes("body", M)...)
	s, err, ok := c05read(file, "body")
	if ok && err == nil {
		// whatever is returned must be structurally sane
		zz.Assert(int(s.NumTracks()) == int(ntrks), "body:track-count-as-declared")
	}
	zz.Reach("end")
}

// VerifC05Trunc: a reference-valid file cut at every byte offset: error, or tracks that are
// event-for-event prefixes of the reference decode of the full file.
func VerifC05Trunc() {
	K := zz.Param("K")
	T := 1 + zz.Choice("tracks", zz.Param("maxtracks"))
	format := uint16(0)
	if T > 1 {
		format = 1
	}
	file := c02header(format, uint16(T), 480)
	for t := 0; t < T; t++ {
		var body []byte
		var rs byte
		for i := 0; i < K; i++ {
			var ev []byte
			ev, rs = c02seqEvent(string(rune('a'+t))+string(rune('0'+i)), rs)
			body = append(body, ev...)
		}
		body = append(body, 0, 0xFF, 0x2F, 0)
		file = append(file, c02chunk("MTrk", body)...)
	}
	ref := refDecode(file, refOpts{})
	zz.Assert(ref.ok, "generator-produces-valid-files")
	if !ref.ok {
		return
	}
	cut := zz.Choice("cut", len(file)) // proper prefixes: 0 .. len-1 bytes
	s, err, ok := c05read(file[:cut], "trunc")
	if !ok || err != nil {
		zz.Reach("end")
		return
	}
	// a value was returned for a proper prefix: nothing invented, reordered or altered
	zz.Assert(len(s.Tracks) <= len(ref.tracks), "trunc:no-extra-tracks")
	for t := range s.Tracks {
		if t >= len(ref.tracks) {
			break
		}
		lt, rt := s.Tracks[t], ref.tracks[t]
		zz.Assert(len(lt) <= len(rt), "trunc:no-extra-events")
		for i := range lt {
			if i >= len(rt) {
				break
			}
			zz.Assert(lt[i].Delta == rt[i].delta, "trunc:delta-unaltered")
			if rt[i].meta {
				typ, pl, okm := c02metaPayload(lt[i].Message)
				zz.Assert(okm && typ == rt[i].typ && c02sameBytes(pl, rt[i].msg[2:]), "trunc:meta-unaltered")
			} else {
				zz.Assert(c02sameBytes(lt[i].Message, rt[i].msg), "trunc:message-unaltered")
			}
		}
	}
	zz.Reach("end")
}

// VerifC05ManyTracks: a format-1 file with more track chunks than a 16-bit signed counter can count
// (the header allows 65535): reading must not panic and must return all of them.
func VerifC05ManyTracks() {
	n := zz.Param("ntracks")
	d := zz.U8("last-delta")
	zz.Assume(d < 0x80)
	file := c02header(1, uint16(n), c02division())
	one := c02chunk("MTrk", []byte{0, 0xFF, 0x2F, 0})
	for t := 0; t < n-1; t++ {
		file = append(file, one...)
	}
	file = append(file, c02chunk("MTrk", []byte{d, 0xFF, 0x2F, 0})...)
	var s *SMF
	var err error
	panicked := zz.Panics(func() { s, err = ReadFrom(bytes.NewReader(file)) })
	zz.Assert(!panicked, "many:no-panic")
	if panicked {
		return
	}
	zz.Assert(err == nil && s != nil, "many:valid-file-accepted")
	if err == nil && s != nil {
		zz.Assert(len(s.Tracks) == n, "many:all-tracks-returned")
		if len(s.Tracks) == n {
			last := s.Tracks[n-1]
			zz.Assert(len(last) == 1 && last[0].Delta == uint32(d), "many:last-track-content")
		}
	}
	zz.Reach("end")
}

// VerifC05LongTail: a meta or sysex event announcing a symbolic (up to 2^28-1) payload length, followed by N real
// bytes (more than the reader's 4096-byte step): the allocation must stay proportional to what is really there.
func VerifC05LongTail() {
	N := zz.Param("N")
	b0, b1, b2, b3 := zz.U8("len0")|0x80, zz.U8("len1")|0x80, zz.U8("len2")|0x80, zz.U8("len3")&0x7F
	body := []byte{0x00}
	if zz.Choice("kind", 2) == 0 {
		body = append(body, 0xFF, 0x01)
	} else {
		body = append(body, 0xF0)
	}
	body = append(body, b0, b1, b2, b3)
	body = append(body, make([]byte, N)...)
	file := append(c02header(0, 1, 480), c02chunk("MTrk", body)...)
	var s *SMF
	var err error
	var panicked bool
	zz.AllocGuard(c05allocLimit+16*N, func() {
		panicked = zz.Panics(func() { s, err = ReadFrom(bytes.NewReader(file)) })
	})
	zz.Assert(!panicked, "tail:no-panic")
	if !panicked {
		zz.Assert((err != nil && s == nil) || (err == nil && s != nil), "tail:error-xor-value")
	}
	zz.Reach("end")
}
