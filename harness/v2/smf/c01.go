package smf

// C01: write -> read is the identity on file content.  C03: the written bytes are strict SMF 1.0.

import (
	"bytes"

	zz "gitlab.com/gomidi/midi/v2/internal/zzverif"
)

func c01sameTimeFormat(a, b TimeFormat, id string) {
	switch x := a.(type) {
	case MetricTicks:
		y, ok := b.(MetricTicks)
		zz.Assert(ok, id+":timeformat-kind")
		if ok {
			zz.Assert(x == y, id+":metric-ticks")
		}
	case TimeCode:
		y, ok := b.(TimeCode)
		zz.Assert(ok, id+":timeformat-kind")
		if ok {
			zz.Assert(x.FramesPerSecond == y.FramesPerSecond && x.SubFrames == y.SubFrames, id+":timecode")
		}
	}
}

// compare two in-memory files as sequences of (delta, message bytes)
func c01sameContent(a, b *SMF, id string) {
	zz.Assert(a.Format() == b.Format(), id+":format")
	c01sameTimeFormat(a.TimeFormat, b.TimeFormat, id)
	zz.Assert(len(a.Tracks) == len(b.Tracks), id+":track-count")
	if len(a.Tracks) != len(b.Tracks) {
		return
	}
	for t := range a.Tracks {
		x, y := a.Tracks[t], b.Tracks[t]
		zz.Assert(len(x) == len(y), id+":event-count")
		if len(x) != len(y) {
			continue
		}
		for i := range x {
			zz.Assert(x[i].Delta == y[i].Delta, id+":delta")
			zz.Assert(c02sameBytes(x[i].Message, y[i].Message), id+":message-bytes")
		}
	}
}

func c01roundtrip(s *SMF, id string) {
	var buf bytes.Buffer
	n, err := s.WriteTo(&buf)
	zz.Assert(err == nil, id+":write-ok")
	if err != nil {
		return
	}
	zz.Assert(n == int64(buf.Len()), id+":reported-size")
	for t := range s.Tracks {
		zz.Assert(s.Tracks[t].IsClosed(), id+":closed-after-write")
	}
	s2, err2, panicked := c02read(buf.Bytes())
	zz.Assert(!panicked, id+":read-back-no-panic")
	if panicked {
		return
	}
	zz.Assert(err2 == nil, id+":read-back-ok")
	if err2 != nil || s2 == nil {
		return
	}
	c01sameContent(s, s2, id)

	// C03: strict parser accepts exactly what was written (deltas up to the format's maximum 0x0FFFFFFF)
	var inRange []bool
	for t := range s.Tracks {
		for _, ev := range s.Tracks[t] {
			inRange = append(inRange, ev.Delta <= 0x0FFFFFFF)
		}
	}
	if zz.And(inRange...) {
		ref := refDecode(buf.Bytes(), refOpts{strict: true})
		zz.Assert(ref.ok, id+":strict-parser-accepts")
		if ref.ok {
			c02compare(s, ref, id+":strict")
		}
	}
	// writing the same value twice emits identical bytes
	var buf2 bytes.Buffer
	n2, err3 := s.WriteTo(&buf2)
	zz.Assert(err3 == nil && n2 == n, id+":second-write")
	zz.Assert(c02sameBytes(buf.Bytes(), buf2.Bytes()), id+":deterministic")
}

// VerifC01Header: every constructor, every time division, running status on/off, 1..T trivial tracks.
func VerifC01Header() {
	s := genSMF(3)
	s.TimeFormat = genTimeFormat()
	T := 1 + zz.Choice("tracks", zz.Param("maxtracks"))
	for t := 0; t < T; t++ {
		var tr Track
		if zz.Choice("closed", 2) == 1 {
			tr.Close(zz.U32("closedelta"))
		}
		s.Add(tr)
	}
	wantFormat := s.Format()
	c01roundtrip(s, "header")
	zz.Assert(s.Format() == wantFormat, "format-stable")
	zz.Reach("end")
}

// VerifC01Events: one track, K events, full uint32 deltas (C01) / deltas up to 0x0FFFFFFF (C03 strictness).
func VerifC01Events() {
	s := genSMF(zz.Param("nctor"))
	K := zz.Param("K")
	tr := genTrack("t", K, zz.Param("nlens"), uint32(zz.Param("maxdelta")))
	s.Add(tr)
	c01roundtrip(s, "events")
	zz.Reach("end")
}

// VerifC01MultiAdd: multi-message Add calls whose messages may include an end-of-track at any position
// (what follows an end-of-track is ignored, like every Add on a closed track), followed by a further Add.
func VerifC01MultiAdd() {
	s := genSMF(1)
	var tr Track
	n := 1 + zz.Choice("n", zz.Param("N"))
	var msgs [][]byte
	for i := 0; i < n; i++ {
		ks := "m" + string(rune('0'+i))
		if zz.Choice("eot"+ks, 2) == 1 {
			msgs = append(msgs, EOT)
		} else {
			msgs = append(msgs, []byte{0x90, zz.U8("key"+ks) & 0x7F, 64})
		}
	}
	tr.Add(uint32(zz.U8("delta")), msgs...)
	if zz.Choice("again", 2) == 1 {
		tr.Add(uint32(zz.U8("delta2")), []byte{0x80, zz.U8("keyz") & 0x7F, 0})
	}
	s.Add(tr)
	c01roundtrip(s, "multiadd")
	zz.Reach("end")
}

// VerifC01Tracks: T tracks x K events (per-track reset of chunk buffer and running status).
func VerifC01Tracks() {
	s := genSMF(zz.Param("nctor"))
	T := zz.Param("T")
	for t := 0; t < T; t++ {
		s.Add(genTrack(string(rune('a'+t)), zz.Param("K"), 2, uint32(zz.Param("maxdelta"))))
	}
	c01roundtrip(s, "tracks")
	zz.Reach("end")
}

// VerifC03Big: chunk bodies crossing the byte boundaries of the 32-bit length field (content never branches).
func VerifC03Big() {
	s := New()
	s.NoRunningStatus = zz.Bool("norunningstatus")
	var tr Track
	tr.Add(0, MetaText(zz.Str("text", zz.Param("L"))))
	d := zz.U32("d")
	zz.Assume(d <= 0x0FFFFFFF)
	tr.Add(d, []byte{0x90, zz.U8("k") & 0x7F, zz.U8("v") & 0x7F})
	tr.Close(0)
	s.Add(tr)
	var buf bytes.Buffer
	n, err := s.WriteTo(&buf)
	zz.Assert(err == nil && n == int64(buf.Len()), "big:write-ok")
	b := buf.Bytes()
	zz.Assert(len(b) > 22, "big:size")
	// chunk length field = exact number of body bytes
	zz.Assert(refBE32(b, 18) == uint32(len(b)-22), "big:chunk-length-exact")
	ref := refDecode(b, refOpts{strict: true})
	zz.Assert(ref.ok, "big:strict-parser-accepts")
	// read back by the library: payloads longer than the reader's 4096-byte steps
	s2, err2, panicked := c02read(b)
	zz.Assert(!panicked && err2 == nil && s2 != nil, "big:read-back-ok")
	if panicked || err2 != nil || s2 == nil || !ref.ok {
		return
	}
	c02compare(s2, ref, "big:read-back")
	zz.Reach("end")
}

// VerifC01Sandwich: channel message, then a message that must cancel running status (meta / F0 / F7 packet),
// then a channel message with the same or another status: the third message must survive the round trip and the
// written bytes must not use running status across the middle event.
func VerifC01Sandwich() {
	s := New()
	s.NoRunningStatus = zz.Bool("norunningstatus")
	var tr Track
	st1, a1, b1 := zz.U8("st1"), zz.U8("a1"), zz.U8("b1")
	zz.Assume(st1 >= 0x80 && st1 <= 0xEF && a1 < 0x80 && b1 < 0x80)
	first := []byte{st1, a1, b1}
	if st1&0xF0 == 0xC0 || st1&0xF0 == 0xD0 {
		first = []byte{st1, a1}
	}
	tr.Add(uint32(zz.U8("d1")), first)
	L := zz.Choice("midlen", 2)
	switch zz.Choice("mid", 4) {
	case 0:
		typ := zz.U8("typ")
		zz.Assume(typ < 0x80 && typ != 0x2F)
		tr.Add(uint32(zz.U8("d2")), _MetaMessage(typ, zz.Bytes("p", L)))
	case 1:
		tr.Add(uint32(zz.U8("d2")), append([]byte{0xF0}, zz.Bytes("p", L)...))
	case 2:
		tr.Add(uint32(zz.U8("d2")), append([]byte{0xF7}, zz.Bytes("p", L)...))
	case 3: // no middle event: plain running status between two channel messages
	}
	st3, a3, b3 := zz.U8("st3"), zz.U8("a3"), zz.U8("b3")
	zz.Assume(st3 >= 0x80 && st3 <= 0xEF && a3 < 0x80 && b3 < 0x80)
	third := []byte{st3, a3, b3}
	if st3&0xF0 == 0xC0 || st3&0xF0 == 0xD0 {
		third = []byte{st3, a3}
	}
	tr.Add(uint32(zz.U8("d3")), third)
	tr.Close(0)
	s.Add(tr)
	c01roundtrip(s, "sandwich")
	zz.Reach("end")
}

// VerifC03Rewrite: histories that write a value more than once with changes in between: write, add a track,
// write again; read a file, add a track, write. The header must always announce the tracks that follow.
func VerifC03Rewrite() {
	s := genSMF(zz.Param("nctor"))
	s.Add(genTrack("a", 1, 2, 127))
	var first bytes.Buffer
	_, err := s.WriteTo(&first)
	zz.Assert(err == nil, "rewrite:first-write-ok")
	if zz.Choice("via-read", 2) == 1 {
		s2, rerr, panicked := c02read(first.Bytes())
		zz.Assert(!panicked && rerr == nil, "rewrite:read-ok")
		if panicked || rerr != nil {
			return
		}
		s = s2
	}
	s.Add(genTrack("b", 1, 2, 127))
	var second bytes.Buffer
	n, err2 := s.WriteTo(&second)
	zz.Assert(err2 == nil && n == int64(second.Len()), "rewrite:second-write-ok")
	ref := refDecode(second.Bytes(), refOpts{strict: true})
	zz.Assert(ref.ok, "rewrite:strict-parser-accepts-second-write")
	if ref.ok {
		zz.Assert(ref.ntrks == 2 && len(ref.tracks) == 2, "rewrite:header-announces-both-tracks")
		c02compare(s, ref, "rewrite")
	}
	// C01: the value written after the history write/read -> Add -> write reads back as it is
	if zz.Param("readback") == 0 {
		zz.Reach("end")
		return
	}
	s3, err3, panicked3 := c02read(second.Bytes())
	zz.Assert(!panicked3 && err3 == nil && s3 != nil, "rewrite:read-back-ok")
	if !panicked3 && err3 == nil && s3 != nil {
		c01sameContent(s, s3, "rewrite:read-back")
	}
	zz.Reach("end")
}
