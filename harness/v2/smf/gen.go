package smf

// Generators of SMF values through the public API (shared by C01, C03, C10, C16 ...).

import (
	zz "gitlab.com/gomidi/midi/v2/internal/zzverif"
)

var genPayloadLens = []int{0, 1, 2, 3, 127, 128, 129}

// genMsg: one channel / meta / sysex / escape message with symbolic content.
// nlens = how many entries of genPayloadLens may be used for meta/sysex payloads.
func genMsg(k string, nlens int) []byte {
	switch zz.Choice("kind"+k, 5) {
	case 0:
		st, a, b := zz.U8("st"+k), zz.U8("a"+k), zz.U8("b"+k)
		zz.Assume(st >= 0x80 && st <= 0xEF && st&0xF0 != 0xC0 && st&0xF0 != 0xD0 && a < 0x80 && b < 0x80)
		return []byte{st, a, b}
	case 1:
		st, a := zz.U8("st"+k), zz.U8("a"+k)
		zz.Assume((st&0xF0 == 0xC0 || st&0xF0 == 0xD0) && a < 0x80)
		return []byte{st, a}
	case 2:
		typ := zz.U8("typ" + k)
		zz.Assume(typ < 0x80 && typ != 0x2F)
		L := genPayloadLens[zz.Choice("len"+k, nlens)]
		return _MetaMessage(typ, zz.Bytes("payload"+k, L))
	case 3:
		L := genPayloadLens[zz.Choice("len"+k, nlens)]
		return append([]byte{0xF0}, zz.Bytes("payload"+k, L)...)
	default:
		L := genPayloadLens[zz.Choice("len"+k, nlens)]
		return append([]byte{0xF7}, zz.Bytes("payload"+k, L)...)
	}
}

func genTimeFormat() TimeFormat {
	if zz.Choice("tfkind", 2) == 0 {
		q := zz.U16("ticks")
		zz.Assume(q >= 1 && q <= 32767)
		return MetricTicks(q)
	}
	sub := zz.U8("subframes")
	switch zz.Choice("fps", 4) {
	case 0:
		return SMPTE24(sub)
	case 1:
		return SMPTE25(sub)
	case 2:
		return SMPTE30DropFrame(sub)
	}
	return SMPTE30(sub)
}

// genSMF: nctor = number of constructors to range over (1: New only).
func genSMF(nctor int) *SMF {
	var s *SMF
	switch zz.Choice("ctor", nctor) {
	case 0:
		s = New()
	case 1:
		s = NewSMF1()
	default:
		s = NewSMF2()
	}
	s.NoRunningStatus = zz.Bool("norunningstatus")
	return s
}

// genTrack: K events with symbolic uint32 deltas (bounded by maxDelta), close variants.
func genTrack(k string, K, nlens int, maxDelta uint32) Track {
	var tr Track
	for i := 0; i < K; i++ {
		ks := k + string(rune('0'+i))
		d := zz.U32("delta" + ks)
		zz.Assume(d <= maxDelta)
		tr.Add(d, genMsg(ks, nlens))
	}
	switch zz.Choice("close"+k, 3) {
	case 0: // omitted: WriteTo closes with delta 0
	case 1:
		d := zz.U32("closedelta" + k)
		zz.Assume(d <= 0x3FFF) // the full range of the closing delta is covered by VerifC01Header
		tr.Close(d)
	case 2: // closed early, later Add calls are ignored
		d := zz.U32("closedelta" + k)
		zz.Assume(d <= 0x7F)
		tr.Close(d)
		tr.Add(7, []byte{0x90, 1, 2})
		tr.Close(9)
	}
	return tr
}
