package smf

// C13: recording a live stream yields a valid file with faithful timing.

import (
	"bytes"
	"time"

	"gitlab.com/gomidi/midi/v2"
	"gitlab.com/gomidi/midi/v2/drivers/testdrv"
	zz "gitlab.com/gomidi/midi/v2/internal/zzverif"
)

func c13d7(n string) byte { v := zz.U8(n); zz.Assume(v < 0x80); return v }

// one live delivery: 0 channel (2 data), 1 channel (1 data), 2 MTC, 3 SPP, 4 song select, 5 tune, 6 sysex, 7 realtime,
// 8 a delivery without bytes (time passes, nothing arrives)
func c13msg(k string) (m []byte, isChannel bool) {
	switch zz.Choice("kind"+k, 9) {
	case 0:
		st := zz.U8("st" + k)
		zz.Assume(st >= 0x80 && st <= 0xEF && st&0xF0 != 0xC0 && st&0xF0 != 0xD0)
		return []byte{st, c13d7("a" + k), c13d7("b" + k)}, true
	case 1:
		st := zz.U8("st" + k)
		zz.Assume(st&0xF0 == 0xC0 || st&0xF0 == 0xD0)
		return []byte{st, c13d7("a" + k)}, true
	case 2:
		return []byte{0xF1, c13d7("a" + k)}, false
	case 3:
		return []byte{0xF2, c13d7("a" + k), c13d7("b" + k)}, false
	case 4:
		return []byte{0xF3, c13d7("a" + k)}, false
	case 5:
		return []byte{0xF6}, false
	case 6:
		return []byte{0xF0, c13d7("a" + k), 0xF7}, false
	case 8:
		return []byte{}, false
	default:
		rt := []byte{0xF8, 0xFA, 0xFB, 0xFC, 0xFE, 0xFF}
		return []byte{rt[zz.Choice("rt"+k, len(rt))]}, false
	}
}

// VerifC13Pipe: loopback driver -> Track.RecordFrom -> close -> WriteTo -> strict parser and ReadFrom.
func VerifC13Pipe() {
	M := zz.Param("M")
	drv := testdrv.New("rec")
	ins, _ := drv.Ins()
	outs, _ := drv.Outs()
	outs[0].Open()
	var tr Track
	// resolution 500 at 120 BPM: exactly one tick per millisecond (the engine replaces Ticks by that contract)
	var stop func()
	var err error
	var file *SMF // wrapper=1: through the file-level wrapper SMF.RecordFrom, which closes and adds the track itself
	if zz.Param("wrapper") == 1 {
		file = New()
		file.TimeFormat = MetricTicks(500)
		stop, err = file.RecordFrom(ins[0], 120)
	} else {
		stop, err = tr.RecordFrom(ins[0], MetricTicks(500), 120)
	}
	zz.Assert(err == nil && stop != nil, "record:start-ok")
	if err != nil || stop == nil {
		return
	}
	var want [][]byte
	var wantDelta []uint32
	var since uint32 // milliseconds since the previous recorded channel message
	for i := 0; i < M; i++ {
		ks := string(rune('a' + i))
		m, isCh := c13msg(ks)
		ms := zz.U16("sleep" + ks)
		drv.Sleep(time.Duration(ms) * time.Millisecond)
		since += uint32(ms)
		zz.Assert(outs[0].Send(m) == nil, "record:send-ok")
		if isCh {
			want = append(want, m)
			wantDelta = append(wantDelta, since)
			since = 0
		}
	}
	stop()
	if file != nil {
		zz.Assert(len(file.Tracks) == 1 && file.Tracks[0].IsClosed(), "record:wrapper-adds-the-closed-track-once")
		if len(file.Tracks) != 1 {
			return
		}
		tr = file.Tracks[0]
	}
	tr.Close(0)
	// the track holds the tempo event, then exactly the channel messages, unchanged and in order
	zz.Assert(len(tr) == len(want)+2, "record:only-channel-messages-after-the-tempo-event")
	if len(tr) != len(want)+2 {
		return
	}
	var bpm float64
	zz.Assert(tr[0].Message.GetMetaTempo(&bpm), "record:first-event-is-the-tempo")
	for i, w := range want {
		zz.Assert(c02sameBytes(tr[1+i].Message, w), "record:channel-message-unchanged-in-order")
		zz.Assert(tr[1+i].Delta == wantDelta[i], "record:delta-is-the-arrival-time-difference")
	}
	for _, ev := range tr {
		// (the bit-vector mode over-approximates the float tick conversion by an arbitrary uint32; real deltas of
		// millisecond gaps below 2^16 stay far below the format's maximum)
		zz.Assume(ev.Delta <= 0x0FFFFFFF)
	}
	s := New()
	zz.Assert(s.Add(tr) == nil, "record:track-closed")
	var buf bytes.Buffer
	_, werr := s.WriteTo(&buf)
	zz.Assert(werr == nil, "record:write-ok")
	ref := refDecode(buf.Bytes(), refOpts{strict: true})
	zz.Assert(ref.ok, "record:written-file-is-valid-smf")
	s2, rerr, panicked := c02read(buf.Bytes())
	zz.Assert(!panicked && rerr == nil, "record:read-back-ok")
	if !panicked && rerr == nil {
		c01sameContent(s, s2, "record:read-back")
	}
	zz.Reach("end")
}

// VerifC13Delta (arith mode): the delta of a recorded message is the conversion of the arrival-time difference
// at the recording tempo and resolution, to within one tick.
func VerifC13Delta() {
	dms := zz.I32("delta-ms")
	zz.Assume(dms >= 0)
	q := zz.U16("resolution")
	zz.Assume(q >= 24 && q <= 15360)
	bpm := zz.F64("bpm", 20, 400)
	// the result fits the uint32 delta field
	zz.Assume(float64(dms)*float64(q)*bpm < 257698037700000)
	got := MetricTicks(q).Ticks(bpm, time.Duration(dms)*time.Millisecond)
	exact := float64(dms) * float64(q) * bpm / 60000
	zz.Assert(float64(got)-exact <= 1.000001, "delta:not-more-than-one-tick-above")
	zz.Assert(exact-float64(got) <= 1.000001, "delta:not-more-than-one-tick-below")
	zz.Reach("end")
}

var _ = midi.NoteOn
