package smf

// C08 for file-level messages: a leading FF byte means a meta event rather than a reset.

import (
	"gitlab.com/gomidi/midi/v2"
	zz "gitlab.com/gomidi/midi/v2/internal/zzverif"
)

func c08count(bs ...bool) int {
	n := 0
	for _, b := range bs {
		if b {
			n++
		}
	}
	return n
}

func c08check(m Message) {
	n := len(m)
	t := m.Type()
	isMeta := m.IsMeta()
	zz.Assert(isMeta == (n > 0 && m[0] == 0xFF), "ismeta-iff-ff")
	isCh, isSc, isRt, isSx, isUn := m.Is(midi.ChannelMsg), m.Is(midi.SysCommonMsg), m.Is(midi.RealTimeMsg), m.Is(midi.SysExMsg), m.Is(midi.UnknownMsg)
	isM := m.Is(MetaMsg)
	if isMeta {
		zz.Assert(!isCh && !isSc && !isRt && !isSx, "meta-not-other-category")
		zz.Assert(t != midi.ResetMsg, "meta-never-reset")
		zz.Assert(!m.IsPlayable(), "meta-never-playable")
		zz.Assert(c08count(isM, isUn) == 1, "meta-exactly-one-category")
	} else {
		zz.Assert(!isM, "non-meta-not-meta")
		zz.Assert(c08count(isCh, isSc, isRt, isSx, isUn) == 1, "exactly-one-category")
	}
	_ = m.String()
	_ = m.IsOneOf(midi.ChannelMsg, MetaMsg)
	var a, b, c, d, e uint8
	var r int16
	var u uint16
	var bt []byte
	var s string
	var f float64
	var k Key
	var b1, b2 bool
	gOn := m.GetNoteOn(&a, &b, &c)
	gOff := m.GetNoteOff(&a, &b, &c)
	gPat := m.GetPolyAfterTouch(&a, &b, &c)
	gCC := m.GetControlChange(&a, &b, &c)
	gPC := m.GetProgramChange(&a, &b)
	gAT := m.GetAfterTouch(&a, &b)
	gPB := m.GetPitchBend(&a, &r, &u)
	gSX := m.GetSysEx(&bt)
	chanAcc := c08count(gOn, gOff, gPat, gCC, gPC, gAT, gPB, gSX)
	mCh := m.GetMetaChannel(&a)
	mPort := m.GetMetaPort(&a)
	mSeqNo := m.GetMetaSeqNumber(&u)
	mSeqD := m.GetMetaSeqData(&bt)
	mKeySig := m.GetMetaKeySig(&a, &b, &b1, &b2)
	mKey := m.GetMetaKey(&k)
	mSmpte := m.GetMetaSMPTEOffsetMsg(&a, &b, &c, &d, &e)
	mTS := m.GetMetaTimeSig(&a, &b, &c, &d)
	mMeter := m.GetMetaMeter(&a, &b)
	mTempo := m.GetMetaTempo(&f)
	mLyr := m.GetMetaLyric(&s)
	mCopy := m.GetMetaCopyright(&s)
	mCue := m.GetMetaCuepoint(&s)
	mDev := m.GetMetaDevice(&s)
	mIns := m.GetMetaInstrument(&s)
	mMark := m.GetMetaMarker(&s)
	mProg := m.GetMetaProgramName(&s)
	mText := m.GetMetaText(&s)
	mTrk := m.GetMetaTrackName(&s)
	metaAcc := c08count(mCh, mPort, mSeqNo, mSeqD, mKeySig, mSmpte, mTS, mTempo, mLyr, mCopy, mCue, mDev, mIns, mMark, mProg, mText, mTrk)
	zz.Assert(chanAcc+metaAcc <= 1, "at-most-one-accessor")
	zz.Assert(mKey == mKeySig, "key-views-agree")
	zz.Assert(mMeter == mTS, "meter-views-agree")
	zz.Assert(!isMeta || chanAcc == 0, "meta-rejected-by-channel-accessors")
	zz.Assert(isMeta || metaAcc == 0, "non-meta-rejected-by-meta-accessors")
	zz.Assert(!gOn || t == midi.NoteOnMsg, "accepts-only-own-type:NoteOn")
	zz.Assert(!gOff || t == midi.NoteOffMsg, "accepts-only-own-type:NoteOff")
	zz.Assert(!gPat || t == midi.PolyAfterTouchMsg, "accepts-only-own-type:PolyAfterTouch")
	zz.Assert(!gCC || t == midi.ControlChangeMsg, "accepts-only-own-type:ControlChange")
	zz.Assert(!gPC || t == midi.ProgramChangeMsg, "accepts-only-own-type:ProgramChange")
	zz.Assert(!gAT || t == midi.AfterTouchMsg, "accepts-only-own-type:AfterTouch")
	zz.Assert(!gPB || t == midi.PitchBendMsg, "accepts-only-own-type:PitchBend")
	zz.Assert(!gSX || t == midi.SysExMsg, "accepts-only-own-type:SysEx")
	zz.Assert(!mCh || t == MetaChannelMsg, "accepts-only-own-type:MetaChannel")
	zz.Assert(!mPort || t == MetaPortMsg, "accepts-only-own-type:MetaPort")
	zz.Assert(!mSeqNo || t == MetaSeqNumberMsg, "accepts-only-own-type:MetaSeqNumber")
	zz.Assert(!mSeqD || t == MetaSeqDataMsg, "accepts-only-own-type:MetaSeqData")
	zz.Assert(!mKeySig || t == MetaKeySigMsg, "accepts-only-own-type:MetaKeySig")
	zz.Assert(!mSmpte || t == MetaSMPTEOffsetMsg, "accepts-only-own-type:MetaSMPTE")
	zz.Assert(!mTS || t == MetaTimeSigMsg, "accepts-only-own-type:MetaTimeSig")
	zz.Assert(!mTempo || t == MetaTempoMsg, "accepts-only-own-type:MetaTempo")
	zz.Assert(!mLyr || t == MetaLyricMsg, "accepts-only-own-type:MetaLyric")
	zz.Assert(!mCopy || t == MetaCopyrightMsg, "accepts-only-own-type:MetaCopyright")
	zz.Assert(!mCue || t == MetaCuepointMsg, "accepts-only-own-type:MetaCuepoint")
	zz.Assert(!mDev || t == MetaDeviceMsg, "accepts-only-own-type:MetaDevice")
	zz.Assert(!mIns || t == MetaInstrumentMsg, "accepts-only-own-type:MetaInstrument")
	zz.Assert(!mMark || t == MetaMarkerMsg, "accepts-only-own-type:MetaMarker")
	zz.Assert(!mProg || t == MetaProgramNameMsg, "accepts-only-own-type:MetaProgramName")
	zz.Assert(!mText || t == MetaTextMsg, "accepts-only-own-type:MetaText")
	zz.Assert(!mTrk || t == MetaTrackNameMsg, "accepts-only-own-type:MetaTrackName")
}

// VerifC08Smf: every byte string of length n.
func VerifC08Smf() {
	n := zz.Param("n")
	m := Message(zz.Bytes("m", n))
	c08check(m)
	zz.Reach("end")
}

// VerifC08SmfMeta: every message the reader / meta constructors can produce: FF typ VLQ(len) payload.
func VerifC08SmfMeta() {
	n := zz.Param("n")
	typ := zz.U8("typ")
	m := _MetaMessage(typ, zz.Bytes("payload", n))
	c08check(m)
	zz.Assert(m.IsMeta(), "constructed-is-meta")
	zz.Reach("end")
}

// VerifC08SmfLongMeta: FF typ followed by n-2 arbitrary bytes (length fields of any number of bytes, also
// overlong ones that no writer emits), n beyond the fully symbolic lengths of VerifC08Smf.
func VerifC08SmfLongMeta() {
	n := zz.Param("n")
	raw := zz.Bytes("m", n)
	raw[0] = 0xFF
	c08check(Message(raw))
	zz.Reach("end")
}
