package smf

// Float kernels under the rounding-envelope model (engine "arith" mode): Go integers are SMT Ints with their
// machine range, every float64 operation is exact*(1+e), |e| <= 2^-53.

import (
	zz "gitlab.com/gomidi/midi/v2/internal/zzverif"
)

// VerifC15Tempo: every tempo representable in the 24-bit microseconds-per-quarter field survives
// decode -> encode exactly.
func VerifC15Tempo() {
	b0, b1, b2 := zz.U8("us-hi"), zz.U8("us-mid"), zz.U8("us-lo")
	us := uint32(b0)<<16 | uint32(b1)<<8 | uint32(b2)
	zz.Assume(us >= 1)
	src := Message{0xFF, 0x51, 0x03, b0, b1, b2}
	var bpm float64
	zz.Assert(src.GetMetaTempo(&bpm), "tempo:accessor-accepts")
	m := MetaTempo(bpm)
	zz.Assert(len(m) == 6, "tempo:length")
	if len(m) != 6 {
		return
	}
	zz.Assert(m[0] == 0xFF && m[1] == 0x51 && m[2] == 0x03, "tempo:header")
	got := uint32(m[3])<<16 | uint32(m[4])<<8 | uint32(m[5])
	zz.Assert(got == us, "tempo:reencodes-to-the-same-field-value")
	zz.Reach("end")
}

// VerifC15TempoBPM: for an arbitrary real tempo between the slowest and the fastest representable one, the
// encoded field is within the field's resolution (half a microsecond) of 60,000,000/bpm.
func VerifC15TempoBPM() {
	bpm := zz.F64("bpm", 3.58, 60000000)
	m := MetaTempo(bpm)
	zz.Assert(len(m) == 6, "tempo:length")
	if len(m) != 6 {
		return
	}
	got := uint32(m[3])<<16 | uint32(m[4])<<8 | uint32(m[5])
	// |got - 6e7/bpm| <= 1/2 + 1e-6 (the slack covers the rounding of the harness' own division)
	x := 60000000 / bpm
	g := float64(got)
	zz.Assert(g-x <= 0.500001, "tempo:within-half-a-microsecond-above")
	zz.Assert(x-g <= 0.500001, "tempo:within-half-a-microsecond-below")
	zz.Reach("end")
}

// VerifC11Kernel: MetricTicks.Duration composed with the tempo decoding: within one microsecond of the exact
// value d*us/q, for every resolution, every 24-bit tempo and deltas up to a multi-day horizon.
func VerifC11Kernel() {
	q := zz.U16("q")
	zz.Assume(q >= 1 && q <= 32767)
	b0, b1, b2 := zz.U8("us-hi"), zz.U8("us-mid"), zz.U8("us-lo")
	us := uint32(b0)<<16 | uint32(b1)<<8 | uint32(b2)
	zz.Assume(us >= 1)
	d := zz.U32("d")
	// horizon: d*us/q <= 2^48/1000 microseconds (about 3.2 days)
	zz.Assume(uint64(d)*uint64(us) <= uint64(q)*281474976710)
	src := Message{0xFF, 0x51, 0x03, b0, b1, b2}
	var bpm float64
	zz.Assert(src.GetMetaTempo(&bpm), "kernel:accessor-accepts")
	got := MetricTicks(q).Duration(bpm, d).Microseconds()
	got = zz.InRange(got, 0, 1<<39, "kernel:result-within-horizon")
	// exact value floor(d*us/q) in integers: q*exact <= d*us < q*(exact+1)
	prod := int64(d) * int64(us)
	zz.Assert(int64(q)*(got-1) <= prod, "kernel:not-more-than-1us-above")
	zz.Assert(prod < int64(q)*(got+2), "kernel:not-more-than-1us-below")
	zz.Reach("end")
}

// VerifC11Inverse: Ticks(bpm, Duration(bpm, t)) == t on the property's domain: durations below 2^40 us,
// tick rates below 10^7 per second.
func VerifC11Inverse() {
	q := zz.U16("q")
	zz.Assume(q >= 1 && q <= 32767)
	bpm := zz.F64("bpm", 3, 60000000)
	t := zz.U32("t")
	// tick rate q*bpm/60 < 1e7 per second
	zz.Assume(float64(q)*bpm < 600000000)
	// duration below 2^40 microseconds, stated on the inputs: t*6e10/(bpm*q) ns < 2^40*1000 ns
	zz.Assume(float64(t)*60000000 < 1099511627776*bpm*float64(q))
	dur := MetricTicks(q).Duration(bpm, t)
	back := MetricTicks(q).Ticks(bpm, dur)
	zz.Assert(back == t, "inverse:ticks-of-duration-of-ticks")
	zz.Reach("end")
}
