package smf

// Float kernels under the rounding-envelope model (engine "arith" mode): Go integers are SMT Ints with their
// machine range, every float64 operation is exact*(1+e), |e| <= 2^-53.

import (
	zz "gitlab.com/gomidi/midi/v2/internal/zzverif"
)

// VerifC15Tempo: every tempo representable in the 24-bit microseconds-per-quarter field survives
// decode -> encode exactly.
func VerifC15Tempo() {
	b0, b1, b2 := zz.U8("us-hi"), zz.U8("us-mid"), zz.U8("us-lo")
	us := uint32(b0)<<16 | uint32(b1)<<8 | uint32(b2)
	zz.Assume(us >= 1)
	src := Message{0xFF, 0x51, 0x03, b0, b1, b2}
	var bpm float64
	zz.Assert(src.GetMetaTempo(&bpm), "tempo:accessor-accepts")
	m := MetaTempo(bpm)
	zz.Assert(len(m) == 6, "tempo:length")
	if len(m) != 6 {
		return
	}
	zz.Assert(m[0] == 0xFF && m[1] == 0x51 && m[2] == 0x03, "tempo:header")
	got := uint32(m[3])<<16 | uint32(m[4])<<8 | uint32(m[5])
	zz.Assert(got == us, "tempo:reencodes-to-the-same-field-value")
	zz.Reach("end")
}

// VerifC15TempoBPM: for an arbitrary real tempo between the slowest and the fastest representable one, the
// encoded field is within the field's resolution (half a microsecond) of 60,000,000/bpm.
func VerifC15TempoBPM() {
	bpm := zz.F64("bpm", 3.58, 60000000)
	m := MetaTempo(bpm)
	zz.Assert(len(m) == 6, "tempo:length")
	if len(m) != 6 {
		return
	}
	got := uint32(m[3])<<16 | uint32(m[4])<<8 | uint32(m[5])
	// |got - 6e7/bpm| <= 1/2 + 1e-6 (the slack covers the rounding of the harness' own division)
	x := 60000000 / bpm
	g := float64(got)
	zz.Assert(g-x <= 0.500001, "tempo:within-half-a-microsecond-above")
	zz.Assert(x-g <= 0.500001, "tempo:within-half-a-microsecond-below")
	zz.Reach("end")
}

// VerifC11Kernel: MetricTicks.Duration composed with the tempo decoding: within one microsecond of the exact
// value d*us/q, for every resolution, every 24-bit tempo and deltas up to a multi-day horizon.
func VerifC11Kernel() {
	q := zz.U16("q")
	zz.Assume(q >= 1 && q <= 32767)
	b0, b1, b2 := zz.U8("us-hi"), zz.U8("us-mid"), zz.U8("us-lo")
	us := uint32(b0)<<16 | uint32(b1)<<8 | uint32(b2)
	zz.Assume(us >= 1)
	d := zz.U32("d")
	// horizon: d*us/q <= 2^48/1000 microseconds (about 3.2 days)
	zz.Assume(uint64(d)*uint64(us) <= uint64(q)*281474976710)
	src := Message{0xFF, 0x51, 0x03, b0, b1, b2}
	var bpm float64
	zz.Assert(src.GetMetaTempo(&bpm), "kernel:accessor-accepts")
	got := MetricTicks(q).Duration(bpm, d).Microseconds()
	got = zz.InRange(got, 0, 1<<39, "kernel:result-within-horizon")
	// exact value floor(d*us/q) in integers: q*exact <= d*us < q*(exact+1)
	prod := int64(d) * int64(us)
	zz.Assert(int64(q)*(got-1) <= prod, "kernel:not-more-than-1us-above")
	zz.Assert(prod < int64(q)*(got+2), "kernel:not-more-than-1us-below")
	zz.Reach("end")
}

// VerifC11Inverse: Ticks(bpm, Duration(bpm, t)) == t on the property's domain: durations below 2^40 us,
// tick rates below 10^7 per second.
func VerifC11Inverse() {
	q := zz.U16("q")
	zz.Assume(q >= 1 && q <= 32767)
	bpm := zz.F64("bpm", 3, 60000000)
	t := zz.U32("t")
	// tick rate q*bpm/60 < 1e7 per second
	zz.Assume(float64(q)*bpm < 600000000)
	// duration below 2^40 microseconds, stated on the inputs: t*6e10/(bpm*q) ns < 2^40*1000 ns
	zz.Assume(float64(t)*60000000 < 1099511627776*bpm*float64(q))
	dur := MetricTicks(q).Duration(bpm, t)
	back := MetricTicks(q).Ticks(bpm, dur)
	zz.Assert(back == t, "inverse:ticks-of-duration-of-ticks")
	zz.Reach("end")
}

// VerifC11TimeAt: a tempo map of n tempo events (non-decreasing ticks in file order, repeated ticks allowed,
// first event possibly after tick 0, 24-bit tempi) and a query tick: TimeAt equals the exact integral of the
// tempo map up to one microsecond per segment; monotone in the tick.
func VerifC11TimeAt() {
	n := zz.Param("n")
	q := zz.U16("q")
	zz.Assume(q >= 1 && q <= 32767)
	s := &SMF{TimeFormat: MetricTicks(q)}
	ticks := make([]int64, n)
	uss := make([]int64, n)
	var at int64
	for i := 0; i < n; i++ {
		ks := string(rune('a' + i))
		at += int64(zz.U16("inc" + ks))
		b0, b1, b2 := zz.U8("hi"+ks), zz.U8("mid"+ks), zz.U8("lo"+ks)
		us := int64(b0)*65536 + int64(b1)*256 + int64(b2)
		zz.Assume(us >= 1)
		var bpm float64
		Message{0xFF, 0x51, 0x03, b0, b1, b2}.GetMetaTempo(&bpm)
		s.tempoChanges = append(s.tempoChanges, &TempoChange{AbsTicks: at, BPM: bpm})
		ticks[i], uss[i] = at, us
	}
	var t1 int64
	if zz.Param("horizon") == 1 {
		// a multi-day horizon: up to 2^34 ticks, provided they last at most three days at 120 BPM (2q ticks per second)
		t1 = zz.I64("far-query")
		zz.Assume(t1 >= 0 && t1 <= 1<<34 && t1 <= 518400*int64(q))
	} else {
		t1 = int64(zz.U32("query"))
		zz.Assume(t1 <= at+65535)
	}
	got := s.TimeAt(t1)
	got = zz.InRange(got, 0, 1<<62, "timeat:non-negative")

	// exact integral, scaled by q: sum over segments of (ticks in segment)*(microseconds per quarter)
	// segment i runs from ticks[i] to ticks[i+1]; before the first event 500000 us per quarter (120 BPM);
	// among events on one tick the last in file order is in force (its predecessors get empty segments)
	var scaled int64
	segs := int64(1)
	prevTick, prevUs := int64(0), int64(500000)
	for i := 0; i < n; i++ {
		if ticks[i] < t1 { // the tempo at tick x is the last event with tick <= x; the integral runs over [0, t1)
			scaled += (ticks[i] - prevTick) * prevUs
			prevTick, prevUs = ticks[i], uss[i]
			segs++
		}
	}
	scaled += (t1 - prevTick) * prevUs
	// |got - scaled/q| <= segs  (+1 for the truncation to whole microseconds)
	zz.Assert(int64(q)*(got-segs-1) <= scaled, "timeat:not-above-the-exact-integral")
	zz.Assert(scaled <= int64(q)*(got+segs+1), "timeat:not-below-the-exact-integral")
	zz.Reach("end")
}

// VerifC11Map: longer tempo maps with concrete resolution and tempi from a small set, symbolic positions
// (repeated ticks included): the float kernels become linear, so maps of n events are decided quickly.
func VerifC11Map() {
	n := zz.Param("n")
	const q = 480
	tempi := []int64{500000, 250000, 1000000, 333333}
	if zz.Param("tiny") == 1 {
		// ticks shorter than half a microsecond: truncation against rounding shows in the order of the results
		tempi = []int64{100, 1, 500000, 239}
	}
	s := &SMF{TimeFormat: MetricTicks(q)}
	ticks := make([]int64, n)
	uss := make([]int64, n)
	var at int64
	for i := 0; i < n; i++ {
		ks := string(rune('a' + i))
		switch {
		case i == 0:
			at += int64(zz.U16("inc" + ks))
		case zz.Param("shape") == 1: // fixed shape: the second event shares the tick of the first, later ones move on
			if i != 1 {
				at += 1 + int64(zz.U16("inc"+ks))
			}
		case zz.Choice("same-tick"+ks, 2) == 0:
			at += int64(zz.U16("inc" + ks))
		}
		us := tempi[zz.Choice("tempo"+ks, zz.Param("ntempi"))]
		s.tempoChanges = append(s.tempoChanges, &TempoChange{AbsTicks: at, BPM: float64(60000000) / float64(us)})
		ticks[i], uss[i] = at, us
	}
	if zz.Param("prequery") == 1 {
		// the answer must not depend on what was asked before (any earlier query on the same value)
		t0 := int64(zz.U32("earlier-query"))
		zz.Assume(t0 <= at+65535)
		s.TimeAt(t0)
	}
	t1 := int64(zz.U32("query"))
	zz.Assume(t1 <= at+65535)
	got := s.TimeAt(t1)
	got = zz.InRange(got, 0, 1<<62, "map:non-negative")
	var scaled int64
	segs := int64(1)
	prevTick, prevUs := int64(0), int64(500000)
	for i := 0; i < n; i++ {
		if ticks[i] < t1 {
			scaled += (ticks[i] - prevTick) * prevUs
			prevTick, prevUs = ticks[i], uss[i]
			segs++
		}
	}
	scaled += (t1 - prevTick) * prevUs
	zz.Assert(q*(got-segs-1) <= scaled, "map:not-above-the-exact-integral")
	zz.Assert(scaled <= q*(got+segs+1), "map:not-below-the-exact-integral")
	if zz.Param("monotone") >= 1 {
		// monotone: a later tick is never earlier in time
		t2 := t1 + 1 // adjacent ticks (monotone=2): non-decreasing from every tick to the next is non-decreasing overall
		if zz.Param("monotone") == 1 {
			t2 = t1 + int64(zz.U16("later"))
		}
		got2 := s.TimeAt(t2)
		zz.Assert(got2 >= got, "map:monotone")
	}
	zz.Reach("end")
}

// VerifC11File: the tempo map as the reader collects it: a two-track file of format 1 or 2 with the tempo event
// (250000 us per quarter) in either track after a symbolic delta and a symbolic number of preceding events.
func VerifC11File() {
	const q = 480
	var format uint16 = 1
	if zz.Choice("format", 2) == 1 {
		format = 2
	}
	d1, d2 := zz.U8("delta1")&0x7F, zz.U8("delta2")&0x7F
	tempoTrack := []byte{d1, 0xC0, zz.U8("prog") & 0x7F, d2, 0xFF, 0x51, 0x03, 0x03, 0xD0, 0x90, 0x00, 0xFF, 0x2F, 0x00}
	noteTrack := []byte{0x00, 0x90, 0x3C, 0x40, 0x10, 0x80, 0x3C, 0x00, 0x00, 0xFF, 0x2F, 0x00}
	file := c02header(format, 2, q)
	if zz.Choice("tempo-track", 2) == 0 {
		file = append(append(file, c02chunk("MTrk", tempoTrack)...), c02chunk("MTrk", noteTrack)...)
	} else {
		file = append(append(file, c02chunk("MTrk", noteTrack)...), c02chunk("MTrk", tempoTrack)...)
	}
	s, err, panicked := c02read(file)
	zz.Assert(!panicked && err == nil && s != nil, "file:read-ok")
	if panicked || err != nil || s == nil {
		return
	}
	tcs := s.TempoChanges()
	zz.Assert(len(tcs) == 1, "file:one-tempo-change-collected")
	if len(tcs) == 1 {
		zz.Assert(tcs[0].AbsTicks == int64(d1)+int64(d2), "file:tempo-change-at-its-absolute-tick")
		zz.Assert(tcs[0].BPM == 240, "file:tempo-value")
	}
	zz.Reach("end")
}
