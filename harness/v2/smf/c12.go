package smf

// C12: playback sends every playable event once, in file order, never early.

import (
	"bytes"

	midi "gitlab.com/gomidi/midi/v2"
	"gitlab.com/gomidi/midi/v2/drivers"
	zz "gitlab.com/gomidi/midi/v2/internal/zzverif"
)

type c12sent struct {
	port  int
	data  []byte
	clock int64
}

type c12log struct{ sent []c12sent }

type c12port struct {
	id  int
	log *c12log
}

func (p *c12port) Open() error             { return nil }
func (p *c12port) Close() error            { return nil }
func (p *c12port) IsOpen() bool            { return true }
func (p *c12port) Number() int             { return p.id }
func (p *c12port) String() string          { return "fake" }
func (p *c12port) Underlying() interface{} { return nil }
func (p *c12port) Send(b []byte) error {
	p.log.sent = append(p.log.sent, c12sent{p.id, append([]byte{}, b...), zz.ClockNs()})
	return nil
}

var _ drivers.Out = &c12port{}

// VerifC12Play: T tracks x K events. Channel messages carry their identity (track in the channel nibble,
// index in the key), deltas are symbolic (`deltabits` bits each), velocity symbolic; metas are interleaved.
func VerifC12Play() {
	T, K := zz.Param("T"), zz.Param("K")
	dmask := uint8(1)<<uint(zz.Param("deltabits")) - 1
	s := NewSMF1()
	s.TimeFormat = MetricTicks(1000) // 120 BPM default tempo: exactly 500 microseconds per tick
	want := make([][]c12ev, T)       // playable events per track, file order
	for t := 0; t < T; t++ {
		var tr Track
		var abs int64
		for i := 0; i < K; i++ {
			ks := string(rune('a'+t)) + string(rune('a'+i))
			d := uint32(zz.U8("delta"+ks) & dmask)
			abs += int64(d)
			if zz.Param("metas") == 1 && zz.Choice("kind"+ks, 2) == 1 {
				tr.Add(d, MetaText("x"))
				continue
			}
			vel := zz.U8("vel"+ks)&0x7F | 1
			tr.Add(d, []byte{0x90 | byte(t), byte(i), vel})
			want[t] = append(want[t], c12ev{abs, i})
		}
		tr.Close(0)
		s.Add(tr)
	}
	// track selection (empty selection = all tracks) and routing
	sel := map[int]bool{}
	selected := make([]bool, T)
	any := false
	if zz.Param("selection") == 1 {
		for t := 0; t < T; t++ {
			if zz.Choice("select", 2) == 1 {
				sel[t] = true
				selected[t] = true
				any = true
			}
		}
	}
	if !any {
		for t := range selected {
			selected[t] = true
		}
	}
	log := &c12log{}
	ports := []*c12port{{0, log}, {1, log}}
	// message type filter (Only): every message matching at least one listed type is played once, the others not at all
	rd := &TracksReader{smf: s, tracks: sel}
	if zz.Param("viafile") == 1 {
		// through the public constructor: the file is written, read back, and the selection is a list of track
		// numbers that may name a track the file does not have (no track listed = all tracks)
		var buf bytes.Buffer
		_, werr := s.WriteTo(&buf)
		zz.Assert(werr == nil, "play:file-written")
		var list []int
		for t := range selected {
			selected[t] = false
		}
		for t := 0; t <= T; t++ {
			if zz.Choice("list-track", 2) == 1 {
				list = append(list, t)
				if t < T {
					selected[t] = true
				}
			}
		}
		if len(list) == 0 {
			for t := range selected {
				selected[t] = true
			}
		}
		rd = ReadTracksFrom(bytes.NewReader(buf.Bytes()), list...)
		zz.Assert(rd.Error() == nil, "play:file-read")
		if rd.Error() != nil {
			return
		}
	}
	matches := true
	if zz.Param("filter") == 1 {
		switch zz.Choice("only", 5) {
		case 1:
			rd.Only(midi.NoteOnMsg)
		case 2:
			rd.Only(midi.NoteOnMsg, midi.ChannelMsg)
		case 3:
			rd.Only(midi.ChannelMsg, midi.NoteOnMsg, midi.NoteOnMsg)
		case 4:
			rd.Only(midi.NoteOffMsg, midi.ControlChangeMsg)
			matches = false
		}
	}
	// `rounds` playbacks on the same reader, each with its own track-to-port map
	for round := 0; round < 1+zz.Param("replays"); round++ {
		log.sent = nil
		if !c12round(s, rd, ports, log, want, selected, matches, T) {
			return
		}
	}
	zz.Reach("end")
}

type c12ev struct {
	tick int64
	idx  int
}

// one playback with a symbolic track-to-port map, checked against the expected events
func c12round(s *SMF, rd *TracksReader, ports []*c12port, log *c12log, want [][]c12ev, selected []bool, matches bool, T int) bool {
	routes := map[int]drivers.Out{}
	route := make([]int, T) // expected port per track, -1 = not played
	def := -1
	if c := zz.Choice("route-default", 3); c > 0 {
		routes[-1] = ports[c-1]
		def = c - 1
	}
	for t := 0; t < T; t++ {
		route[t] = def
		if zz.Param("routing") == 1 {
			if c := zz.Choice("route", 3); c > 0 {
				routes[t] = ports[c-1]
				route[t] = c - 1
			}
		}
	}
	zz.Assume(len(routes) > 0)

	start := zz.ClockNs()
	err := rd.MultiPlay(routes)
	zz.Assert(err == nil, "play:ok")

	// expected number of sends
	total := 0
	for t := 0; t < T; t++ {
		if selected[t] && route[t] >= 0 && matches {
			total += len(want[t])
		}
	}
	zz.Assert(len(log.sent) == total, "play:every-playable-event-exactly-once-and-nothing-else")
	if len(log.sent) != total {
		return false
	}
	next := make([]int, T) // per track: index into want[t] of the next expected event
	var lastTime int64
	var orderOK, routeOK, timeOK, clockOK []bool
	for n, snt := range log.sent {
		zz.Assert(len(snt.data) == 3 && snt.data[0]&0xF0 == 0x90, "play:only-channel-messages")
		t := int(snt.data[0] & 0x0F)
		if t >= T || !selected[t] || route[t] < 0 {
			zz.Fail("play:message-of-unselected-or-unrouted-track")
			return false
		}
		zz.Assert(next[t] < len(want[t]), "play:no-duplicate")
		if next[t] >= len(want[t]) {
			return false
		}
		e := want[t][next[t]]
		orderOK = append(orderOK, int(snt.data[1]) == e.idx)
		next[t]++
		routeOK = append(routeOK, snt.port == route[t])
		sched := s.TimeAt(e.tick) // microseconds
		if n > 0 {
			timeOK = append(timeOK, sched >= lastTime)
		}
		lastTime = sched
		if zz.Param("checkclock") == 1 {
			clockOK = append(clockOK, snt.clock-start >= sched*1000)
		}
	}
	// one deciding query per clause and path
	zz.Assert(zz.And(orderOK...), "play:track-order-is-file-order")
	zz.Assert(zz.And(routeOK...), "play:routed-to-mapped-port")
	zz.Assert(zz.And(timeOK...), "play:merged-by-non-decreasing-time")
	zz.Assert(zz.And(clockOK...), "play:not-before-scheduled-time")
	return true
}
