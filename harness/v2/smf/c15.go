package smf

// C15: meta-event constructors and accessors are mutually inverse.

import (
	zz "gitlab.com/gomidi/midi/v2/internal/zzverif"
)

// own encoder of the length field (independent of utils.VlqEncode)
func c15vlq(n int) []byte {
	switch {
	case n < 1<<7:
		return []byte{byte(n)}
	case n < 1<<14:
		return []byte{byte(n>>7) | 0x80, byte(n & 0x7F)}
	case n < 1<<21:
		return []byte{byte(n>>14) | 0x80, byte(n>>7)&0x7F | 0x80, byte(n & 0x7F)}
	}
	return []byte{byte(n>>21) | 0x80, byte(n>>14)&0x7F | 0x80, byte(n>>7)&0x7F | 0x80, byte(n & 0x7F)}
}

// FF typ VLQ(len) payload
func c15wellformed(m Message, typ byte, payload []byte, id string) {
	hdr := append([]byte{0xFF, typ}, c15vlq(len(payload))...)
	zz.Assert(len(m) == len(hdr)+len(payload), id+":length")
	if len(m) != len(hdr)+len(payload) {
		return
	}
	zz.Assert(c02sameBytes(m[:len(hdr)], hdr), id+":header")
	zz.Assert(c02sameBytes(m[len(hdr):], payload), id+":payload")
}

// VerifC15Text: the nine text-like constructors, text of length L with symbolic content.
func VerifC15Text() {
	L := zz.Param("L")
	text := zz.Str("text", L)
	var m Message
	var got string
	var ok bool
	var typ byte
	switch zz.Choice("ctor", 9) {
	case 0:
		m, typ = MetaLyric(text), 0x05
		ok = m.GetMetaLyric(&got)
	case 1:
		m, typ = MetaCopyright(text), 0x02
		ok = m.GetMetaCopyright(&got)
	case 2:
		m, typ = MetaCuepoint(text), 0x07
		ok = m.GetMetaCuepoint(&got)
	case 3:
		m, typ = MetaDevice(text), 0x09
		ok = m.GetMetaDevice(&got)
	case 4:
		m, typ = MetaInstrument(text), 0x04
		ok = m.GetMetaInstrument(&got)
	case 5:
		m, typ = MetaMarker(text), 0x06
		ok = m.GetMetaMarker(&got)
	case 6:
		m, typ = MetaProgram(text), 0x08
		ok = m.GetMetaProgramName(&got)
	case 7:
		m, typ = MetaText(text), 0x01
		ok = m.GetMetaText(&got)
	default:
		m, typ = MetaTrackSequenceName(text), 0x03
		ok = m.GetMetaTrackName(&got)
	}
	c15wellformed(m, typ, []byte(text), "text")
	zz.Assert(ok, "text:accessor-accepts")
	zz.Assert(len(got) == L, "text:length-returned")
	zz.Assert(got == text, "text:returned-unchanged")
	zz.Reach("end")
}

// VerifC15SeqData: sequencer specific data of length L >= 1.
func VerifC15SeqData() {
	L := zz.Param("L")
	data := zz.Bytes("data", L)
	m := MetaSequencerData(data)
	c15wellformed(m, 0x7F, data, "seqdata")
	var got []byte
	zz.Assert(m.GetMetaSeqData(&got), "seqdata:accessor-accepts")
	zz.Assert(len(got) == L, "seqdata:length-returned")
	if len(got) == L {
		zz.Assert(c02sameBytes(got, data), "seqdata:returned-unchanged")
	}
	zz.Reach("end")
}

// VerifC15Num: channel, port, sequence number, SMPTE offset, time signature — all arguments symbolic.
func VerifC15Num() {
	switch zz.Choice("ctor", 6) {
	case 0:
		ch := zz.U8("ch")
		m := MetaChannel(ch)
		c15wellformed(m, 0x20, []byte{ch}, "channel")
		var g uint8
		zz.Assert(m.GetMetaChannel(&g) && g == ch, "channel:inverse")
	case 1:
		p := zz.U8("port")
		m := MetaPort(p)
		c15wellformed(m, 0x21, []byte{p}, "port")
		var g uint8
		zz.Assert(m.GetMetaPort(&g) && g == p, "port:inverse")
	case 2:
		no := zz.U16("seqno")
		m := MetaSequenceNo(no)
		c15wellformed(m, 0x00, []byte{byte(no >> 8), byte(no)}, "seqno")
		var g uint16
		zz.Assert(m.GetMetaSeqNumber(&g) && g == no, "seqno:inverse")
	case 3:
		h, mi, s, f, ff := zz.U8("h"), zz.U8("m"), zz.U8("s"), zz.U8("f"), zz.U8("ff")
		m := MetaSMPTE(h, mi, s, f, ff)
		c15wellformed(m, 0x54, []byte{h, mi, s, f, ff}, "smpte")
		var a, b, c, d, e uint8
		zz.Assert(m.GetMetaSMPTEOffsetMsg(&a, &b, &c, &d, &e), "smpte:accessor-accepts")
		zz.Assert(zz.And(a == h, b == mi, c == s, d == f, e == ff), "smpte:inverse")
	case 4:
		num, cpc, dsq := zz.U8("num"), zz.U8("clocks"), zz.U8("dsq")
		zz.Assume(cpc != 0 && dsq != 0) // zero is documented shorthand for 8
		pow := zz.Choice("denompow", 8)  // denominators 1,2,4,...,128
		den := uint8(1) << uint(pow)
		m := MetaTimeSig(num, den, cpc, dsq)
		c15wellformed(m, 0x58, []byte{num, byte(pow), cpc, dsq}, "timesig")
		var a, b, c, d uint8
		zz.Assert(m.GetMetaTimeSig(&a, &b, &c, &d), "timesig:accessor-accepts")
		zz.Assert(zz.And(a == num, b == den, c == cpc, d == dsq), "timesig:inverse")
		var mn, md uint8
		zz.Assert(m.GetMetaMeter(&mn, &md) && mn == num && md == den, "timesig:meter-view")
	case 5:
		// zero clock fields are shorthand for 8
		m := MetaTimeSig(zz.U8("num"), 4, 0, 0)
		var a, b, c, d uint8
		zz.Assert(m.GetMetaTimeSig(&a, &b, &c, &d) && c == 8 && d == 8, "timesig:zero-means-8")
	}
	zz.Reach("end")
}

type c15named struct {
	name  string
	f     func() Message
	tonic uint8
	major bool
}

var c15keys = []c15named{
	{"CMaj", CMaj, 0, true}, {"DMaj", DMaj, 2, true}, {"EMaj", EMaj, 4, true}, {"FsharpMaj", FsharpMaj, 6, true},
	{"GMaj", GMaj, 7, true}, {"AMaj", AMaj, 9, true}, {"BMaj", BMaj, 11, true}, {"FMaj", FMaj, 5, true},
	{"BbMaj", BbMaj, 10, true}, {"EbMaj", EbMaj, 3, true}, {"AbMaj", AbMaj, 8, true}, {"DbMaj", DbMaj, 1, true},
	{"GbMaj", GbMaj, 6, true}, {"AMin", AMin, 9, false}, {"BMin", BMin, 11, false}, {"CsharpMin", CsharpMin, 1, false},
	{"DsharpMin", DsharpMin, 3, false}, {"EMin", EMin, 4, false}, {"FsharpMin", FsharpMin, 6, false},
	{"GsharpMin", GsharpMin, 8, false}, {"DMin", DMin, 2, false}, {"GMin", GMin, 7, false}, {"CMin", CMin, 0, false},
	{"FMin", FMin, 5, false}, {"BbMin", BbMin, 10, false}, {"EbMin", EbMin, 3, false},
}

// VerifC15Key: all (accidentals 0..7, flat/sharp, major/minor) tuples against the circle of fifths;
// the 26 named constructors against their names.
func VerifC15Key() {
	if zz.Choice("part", 2) == 0 {
		num := zz.U8("num")
		zz.Assume(num <= 7)
		isFlat, isMajor := zz.Bool("flat"), zz.Bool("major")
		m := MetaKey(zz.U8("ignored-key-argument"), isMajor, num, isFlat)
		sf := int(num)
		if isFlat {
			sf = -sf
		}
		c15wellformed(m, 0x59, []byte{byte(int8(sf)), byte(zz.B2I(!isMajor))}, "key")
		// circle of fifths: each sharp moves the tonic up a fifth (7 semitones), the relative minor is 3 below
		tonic := 7 * sf
		if !isMajor {
			tonic -= 3
		}
		tonic = ((tonic % 12) + 12) % 12
		var k, n uint8
		var maj, flat bool
		zz.Assert(m.GetMetaKeySig(&k, &n, &maj, &flat), "key:accessor-accepts")
		zz.Assert(int(k) == tonic, "key:tonic-by-circle-of-fifths")
		zz.Assert(n == num, "key:count")
		zz.Assert(maj == isMajor, "key:mode")
		if num != 0 {
			zz.Assert(flat == isFlat, "key:flat-flag")
		}
		var kk Key
		zz.Assert(m.GetMetaKey(&kk) && kk.Key == k && kk.Num == n && kk.IsMajor == maj && kk.IsFlat == flat, "key:views-agree")
	} else {
		c := c15keys[zz.Choice("named", len(c15keys))]
		m := c.f()
		var kk Key
		zz.Assert(m.GetMetaKey(&kk), "named:accessor-accepts")
		zz.Assert(kk.Key == c.tonic, "named:tonic-of-its-name")
		zz.Assert(kk.IsMajor == c.major, "named:mode-of-its-name")
		zz.Assert(kk.String() == c.name, "named:string-is-its-name")
	}
	zz.Reach("end")
}
