package smf

// C02: SMF decoding conforms to SMF 1.0 — differential check of smf.ReadFrom against refDecode on
// inputs generated at byte level.

import (
	"bytes"

	zz "gitlab.com/gomidi/midi/v2/internal/zzverif"
)

func c02be16(v uint16) []byte { return []byte{byte(v >> 8), byte(v)} }
func c02be32(v uint32) []byte { return []byte{byte(v >> 24), byte(v >> 16), byte(v >> 8), byte(v)} }

func c02header(format, ntrks, division uint16) []byte {
	b := []byte{'M', 'T', 'h', 'd', 0, 0, 0, 6}
	b = append(b, c02be16(format)...)
	b = append(b, c02be16(ntrks)...)
	return append(b, c02be16(division)...)
}

func c02chunk(typ string, body []byte) []byte {
	b := append([]byte(typ), c02be32(uint32(len(body)))...)
	return append(b, body...)
}

// symbolic division of either kind (all 32767 metric values, 4 SMPTE rates x 256 sub-frame values)
func c02division() uint16 {
	if zz.Choice("divkind", 2) == 0 {
		q := zz.U16("ticks")
		zz.Assume(q >= 1 && q <= 32767)
		return q
	}
	rates := []uint8{0xE8, 0xE7, 0xE3, 0xE2}
	return uint16(rates[zz.Choice("fps", 4)])<<8 | uint16(zz.U8("subframes"))
}

func c02sameBytes(a, b []byte) bool {
	if len(a) != len(b) {
		return false
	}
	conds := make([]bool, 0, len(a))
	for i := range a {
		conds = append(conds, a[i] == b[i])
	}
	return zz.And(conds...)
}

// own VLQ reader for the library's in-memory meta representation FF typ VLQ(len) payload
func c02metaPayload(m []byte) (typ byte, payload []byte, ok bool) {
	if len(m) < 3 || m[0] != 0xFF {
		return 0, nil, false
	}
	v, n := refVLQ(m, 2, len(m), false)
	if n == 0 || int(v) != len(m)-2-n {
		return 0, nil, false
	}
	return m[1], m[2+n:], true
}

// compare what the library returned with the reference decode
func c02compare(s *SMF, ref refFile, id string) {
	zz.Assert(s.Format() == ref.format, id+":format")
	if ref.division&0x8000 == 0 {
		mt, ok := s.TimeFormat.(MetricTicks)
		zz.Assert(ok, id+":metric-kind")
		if ok {
			zz.Assert(uint16(mt) == ref.division, id+":metric-ticks")
		}
	} else {
		tc, ok := s.TimeFormat.(TimeCode)
		zz.Assert(ok, id+":timecode-kind")
		if ok {
			zz.Assert(tc.FramesPerSecond == uint8(-int8(ref.division>>8)), id+":timecode-fps")
			zz.Assert(tc.SubFrames == uint8(ref.division), id+":timecode-subframes")
		}
	}
	zz.Assert(int(s.NumTracks()) == len(ref.tracks), id+":track-count")
	if len(s.Tracks) != len(ref.tracks) {
		return
	}
	for t := range ref.tracks {
		lt, rt := s.Tracks[t], ref.tracks[t]
		zz.Assert(len(lt) == len(rt), id+":event-count")
		if len(lt) != len(rt) {
			continue
		}
		for i := range rt {
			zz.Assert(lt[i].Delta == rt[i].delta, id+":delta")
			if rt[i].meta {
				typ, pl, ok := c02metaPayload(lt[i].Message)
				zz.Assert(ok, id+":meta-wellformed")
				if ok {
					zz.Assert(typ == rt[i].typ, id+":meta-type")
					zz.Assert(c02sameBytes(pl, rt[i].msg[2:]), id+":meta-payload")
				}
			} else {
				zz.Assert(c02sameBytes(lt[i].Message, rt[i].msg), id+":message-bytes")
			}
		}
	}
}

func c02read(file []byte) (s *SMF, err error, panicked bool) {
	panicked = zz.Panics(func() { s, err = ReadFrom(bytes.NewReader(file)) })
	return
}

// VerifC02Raw: one track chunk of N fully symbolic bytes; every byte string the reference accepts.
func VerifC02Raw() {
	N := zz.Param("N")
	body := zz.Bytes("body", N)
	file := append(c02header(0, 1, c02division()), c02chunk("MTrk", body)...)
	ref := refDecode(file, refOpts{})
	zz.Assume(ref.ok)
	zz.Reach("ref-accepts")
	s, err, panicked := c02read(file)
	zz.Assert(!panicked, "no-panic-on-valid-file")
	if panicked {
		return
	}
	zz.Assert(err == nil, "valid-file-accepted")
	if err != nil || s == nil {
		return
	}
	c02compare(s, ref, "raw")
	zz.Reach("end")
}

func c02event(k string) []byte {
	d := zz.U8("delta" + k)
	zz.Assume(d < 0x80)
	switch zz.Choice("evkind"+k, 4) {
	case 0: // channel message with two data bytes
		st, a, b := zz.U8("st"+k), zz.U8("a"+k), zz.U8("b"+k)
		zz.Assume(st >= 0x80 && st <= 0xEF && st&0xF0 != 0xC0 && st&0xF0 != 0xD0 && a < 0x80 && b < 0x80)
		return []byte{d, st, a, b}
	case 1: // one data byte
		st, a := zz.U8("st"+k), zz.U8("a"+k)
		zz.Assume((st&0xF0 == 0xC0 || st&0xF0 == 0xD0) && a < 0x80)
		return []byte{d, st, a}
	case 2: // meta with one payload byte, any type but end-of-track
		typ, p := zz.U8("typ"+k), zz.U8("p"+k)
		zz.Assume(typ != 0x2F)
		return []byte{d, 0xFF, typ, 1, p}
	default: // sysex / escape packet
		c := []byte{0xF0, 0xF7}[zz.Choice("sx"+k, 2)]
		return []byte{d, c, 2, zz.U8("x"+k), zz.U8("y"+k)}
	}
}

func c02alien(k string) []byte {
	t := zz.Bytes("alientype"+k, 4)
	zz.Assume(!(t[0] == 'M' && t[1] == 'T' && t[2] == 'r' && t[3] == 'k'))
	n := zz.Choice("alienlen"+k, 3)
	return append(append(t, c02be32(uint32(n))...), zz.Bytes("aliendata"+k, n)...)
}

// VerifC02Chunks: formats 0/1/2, 1..2 tracks, both division kinds, alien chunks before / between / after.
func VerifC02Chunks() {
	format := uint16(zz.Choice("format", 3))
	ntrks := 1
	if format != 0 {
		ntrks = 1 + zz.Choice("ntrks", zz.Param("maxtracks"))
	}
	file := c02header(format, uint16(ntrks), c02division())
	placement := zz.Choice("alien-placement", 4) // 0 none, 1 before first track, 2 after every track but the last, 3 after the last
	if placement == 1 {
		file = append(file, c02alien("0")...)
	}
	for t := 0; t < ntrks; t++ {
		body := append(c02event([]string{"a", "b", "c"}[t]), 0, 0xFF, 0x2F, 0)
		file = append(file, c02chunk("MTrk", body)...)
		if placement == 2 && t < ntrks-1 {
			file = append(file, c02alien("1")...)
		}
	}
	if placement == 3 {
		file = append(file, c02alien("2")...)
	}
	ref := refDecode(file, refOpts{})
	zz.Assert(ref.ok, "generator-produces-valid-files")
	if !ref.ok {
		return
	}
	zz.Known("C02-alien-chunk-before-track", placement == 1 || (placement == 2 && ntrks > 1))
	s, err, panicked := c02read(file)
	zz.Assert(!panicked, "no-panic-on-valid-file")
	if panicked {
		return
	}
	zz.Assert(err == nil, "valid-file-accepted")
	if err != nil || s == nil {
		return
	}
	c02compare(s, ref, "chunks")
	zz.Reach("end")
}

// VerifC02Long: meta / sysex with two-byte and non-minimal length fields.
func VerifC02Long() {
	lens := []int{127, 128, 129, 200, 0, 5}
	enc := [][]byte{{0x7F}, {0x81, 0x00}, {0x81, 0x01}, {0x81, 0x48}, {0x80, 0x00}, {0x80, 0x80, 0x05}}
	k := zz.Choice("len", len(lens))
	payload := zz.Bytes("payload", lens[k])
	var ev []byte
	if zz.Choice("kind", 2) == 0 {
		typ := zz.U8("typ")
		zz.Assume(typ != 0x2F)
		ev = append([]byte{0, 0xFF, typ}, enc[k]...)
	} else {
		ev = append([]byte{0, []byte{0xF0, 0xF7}[zz.Choice("sx", 2)]}, enc[k]...)
	}
	body := append(append(ev, payload...), 0, 0xFF, 0x2F, 0)
	file := append(c02header(0, 1, 960), c02chunk("MTrk", body)...)
	ref := refDecode(file, refOpts{})
	zz.Assert(ref.ok, "generator-produces-valid-files")
	if !ref.ok {
		return
	}
	s, err, panicked := c02read(file)
	zz.Assert(!panicked, "no-panic-on-valid-file")
	if panicked {
		return
	}
	zz.Assert(err == nil, "valid-file-accepted")
	if err != nil || s == nil {
		return
	}
	c02compare(s, ref, "long")
	zz.Reach("end")
}

// c02seqEvent: one event of a structured track body; rs = running status in force (0 = none).
func c02seqEvent(k string, rs byte) (ev []byte, newrs byte) {
	d := zz.U8("delta" + k)
	zz.Assume(d < 0x80)
	switch zz.Choice("evkind"+k, 6) {
	case 0: // channel message with explicit status
		st, a, b := zz.U8("st"+k), zz.U8("a"+k), zz.U8("b"+k)
		zz.Assume(st >= 0x80 && st <= 0xEF && a < 0x80 && b < 0x80)
		if st&0xF0 == 0xC0 || st&0xF0 == 0xD0 {
			return []byte{d, st, a}, st
		}
		return []byte{d, st, a, b}, st
	case 1: // running status (legal only after a channel message)
		zz.Assume(rs != 0)
		a, b := zz.U8("a"+k), zz.U8("b"+k)
		zz.Assume(a < 0x80 && b < 0x80)
		if rs&0xF0 == 0xC0 || rs&0xF0 == 0xD0 {
			return []byte{d, a}, rs
		}
		return []byte{d, a, b}, rs
	case 2: // meta, empty payload
		typ := zz.U8("typ" + k)
		zz.Assume(typ != 0x2F)
		return []byte{d, 0xFF, typ, 0}, 0
	case 3: // meta, one byte, non-minimal length field
		typ := zz.U8("typ" + k)
		zz.Assume(typ != 0x2F)
		return []byte{d, 0xFF, typ, 0x80, 1, zz.U8("p" + k)}, 0
	case 4:
		return []byte{d, 0xF0, 1, zz.U8("x" + k)}, 0
	default:
		return []byte{d, 0xF7, 1, zz.U8("x" + k)}, 0
	}
}

// VerifC02Seq: one track of K structured events (running status in every legal position, packets that
// cancel it, non-minimal lengths) — longer bodies than VerifC02Raw reaches with fully symbolic bytes.
func VerifC02Seq() {
	K := zz.Param("K")
	var body []byte
	var rs byte
	for i := 0; i < K; i++ {
		var ev []byte
		ev, rs = c02seqEvent(string(rune('a'+i)), rs)
		body = append(body, ev...)
	}
	body = append(body, 0, 0xFF, 0x2F, 0)
	file := append(c02header(0, 1, 480), c02chunk("MTrk", body)...)
	ref := refDecode(file, refOpts{})
	zz.Assert(ref.ok, "generator-produces-valid-files")
	if !ref.ok {
		return
	}
	s, err, panicked := c02read(file)
	zz.Assert(!panicked, "no-panic-on-valid-file")
	if panicked {
		return
	}
	zz.Assert(err == nil, "valid-file-accepted")
	if err != nil || s == nil {
		return
	}
	c02compare(s, ref, "seq")
	zz.Reach("end")
}

// VerifC02Tempo: a tempo event with any 24-bit value (0 included) between two channel messages: the event, its delta
// and everything after it are decoded like any other meta event.
func VerifC02Tempo() {
	d1, d2, d3 := zz.U8("delta1")&0x7F, zz.U8("delta2")&0x7F, zz.U8("delta3")&0x7F
	typ := zz.U8("typ")
	zz.Assume(typ == 0x51 || typ == 0x54 || typ == 0x58 || typ == 0x59)
	body := []byte{d1, 0x90, zz.U8("k1") & 0x7F, 1}
	p0, p1, p2 := zz.U8("p0"), zz.U8("p1"), zz.U8("p2")
	if zz.Choice("payload-all-zero", 2) == 1 {
		p0, p1, p2 = 0, 0, 0 // concrete, so that float code depending on the value (an infinite tempo) is executed exactly
	}
	body = append(body, d2, 0xFF, typ, 3, p0, p1, p2)
	body = append(body, d3, 0x80, zz.U8("k2")&0x7F, 0)
	body = append(body, 0, 0xFF, 0x2F, 0)
	file := append(c02header(zz.U16("format")&1, 1, 480), c02chunk("MTrk", body)...)
	ref := refDecode(file, refOpts{})
	zz.Assert(ref.ok, "generator-produces-valid-files")
	if !ref.ok {
		return
	}
	s, err, panicked := c02read(file)
	zz.Assert(!panicked, "no-panic-on-valid-file")
	if panicked {
		return
	}
	zz.Assert(err == nil, "valid-file-accepted")
	if err != nil || s == nil {
		return
	}
	c02compare(s, ref, "tempo")
	zz.Reach("end")
}
