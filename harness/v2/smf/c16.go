package smf

// C16: converting a format-0 file to format 1 preserves every event and its time.

import (
	zz "gitlab.com/gomidi/midi/v2/internal/zzverif"
)

type c16ev struct {
	tick int64
	msg  []byte
}

func VerifC16Convert() {
	K := zz.Param("K")
	nch := zz.Param("nch")
	src := New()
	src.TimeFormat = genTimeFormat()
	var tr Track
	var meta []c16ev
	var chans [16][]c16ev
	var abs int64
	for i := 0; i < K; i++ {
		ks := string(rune('a' + i))
		d := uint32(zz.U8("delta"+ks) & 3) // many events per tick
		if zz.Param("bigdeltas") == 1 {
			d = zz.U32("bigdelta" + ks) // files that run past tick 2^32
		}
		abs += int64(d)
		var m []byte
		switch zz.Choice("kind"+ks, 4) {
		case 0:
			st, a, b := zz.U8("st"+ks), zz.U8("a"+ks), zz.U8("b"+ks)
			zz.Assume(st >= 0x80 && st <= 0xEF && int(st&0x0F) < nch && a < 0x80 && b < 0x80)
			if zz.Param("anystatus") == 0 {
				zz.Assume(st&0xF0 == 0x90) // the kind of channel message is irrelevant to the conversion; only the channel matters
			}
			if st&0xF0 == 0xC0 || st&0xF0 == 0xD0 {
				m = []byte{st, a}
			} else {
				m = []byte{st, a, b}
			}
			c := zz.Concrete(int(st & 0x0F))
			chans[c] = append(chans[c], c16ev{abs, m})
		case 1:
			typ := zz.U8("typ" + ks)
			zz.Assume(typ < 0x80 && typ != 0x2F)
			m = _MetaMessage(typ, zz.Bytes("p"+ks, 1))
			meta = append(meta, c16ev{abs, m})
		case 2:
			m = []byte{0xF0, zz.U8("x" + ks), 0xF7}
			meta = append(meta, c16ev{abs, m})
		default:
			m = []byte{0xF7, zz.U8("x" + ks)}
			meta = append(meta, c16ev{abs, m})
		}
		tr.Add(d, m)
	}
	endDelta := uint32(zz.U8("enddelta") & 3)
	tr.Close(endDelta)
	abs += int64(endDelta)
	meta = append(meta, c16ev{abs, []byte{0xFF, 0x2F, 0x00}})
	src.Add(tr)
	zz.Assert(src.Format() == 0, "source-is-format-0")

	dst := src.ConvertToSMF1()

	zz.Assert(dst.Format() == 1, "format-1")
	c01sameTimeFormat(src.TimeFormat, dst.TimeFormat, "division-kept")
	// expected tracks: first track everything that is not a channel message, then one track per used channel, ascending
	var want [][]c16ev
	want = append(want, meta)
	for c := 0; c < 16; c++ {
		if len(chans[c]) > 0 {
			want = append(want, chans[c])
		}
	}
	// domain: in every destination track the gap between consecutive messages fits the uint32 delta field
	// (otherwise no format-1 file can hold them at their ticks)
	for _, lst := range want {
		var prev int64
		for _, e := range lst {
			zz.Assume(e.tick-prev <= 0xFFFFFFFF)
			prev = e.tick
		}
	}
	zz.Assert(len(dst.Tracks) == len(want), "track-count")
	if len(dst.Tracks) != len(want) {
		return
	}
	for t := range want {
		got := dst.Tracks[t]
		zz.Assert(got.IsClosed(), "track-terminated")
		exp := want[t]
		n := len(exp)
		if t > 0 {
			n++ // channel tracks get their own end-of-track
		}
		zz.Assert(len(got) == n, "no-message-lost-or-duplicated")
		if len(got) != n {
			continue
		}
		var at int64
		for i, ev := range got {
			at += int64(ev.Delta)
			if i < len(exp) {
				zz.Assert(c02sameBytes(ev.Message, exp[i].msg), "message-unaltered-and-in-source-order")
				zz.Assert(at == exp[i].tick, "absolute-tick-preserved")
			}
			if i < len(got)-1 {
				zz.Assert(!ev.Message.Is(MetaEndOfTrackMsg), "no-early-end-of-track")
			} else {
				zz.Assert(ev.Message.Is(MetaEndOfTrackMsg), "ends-with-end-of-track")
			}
		}
	}
	zz.Reach("end")
}
