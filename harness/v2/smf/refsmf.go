package smf

import zz "gitlab.com/gomidi/midi/v2/internal/zzverif"

// Independent strict SMF 1.0 decoder, written from the specification text (DESIGN.md, Appendix C.1).
// It shares no code with the library: own big-endian and VLQ readers, chunk walk by declared length.

type refEvent struct {
	delta uint32
	msg   []byte // channel: status + data (status always explicit); meta: FF typ payload...; sysex: F0/F7 + data
	meta  bool
	typ   byte
}

type refFile struct {
	ok       bool
	why      string
	format   uint16
	ntrks    uint16
	division uint16
	tracks   [][]refEvent
	aliens   int
}

type refOpts struct {
	strict bool // C03: canonical VLQs, exactly ntrks MTrk chunks, no alien chunks, no trailing bytes, meta type < 0x80
}

func refBE16(b []byte, p int) uint16 { return uint16(b[p])<<8 | uint16(b[p+1]) }
func refBE32(b []byte, p int) uint32 {
	return uint32(b[p])<<24 | uint32(b[p+1])<<16 | uint32(b[p+2])<<8 | uint32(b[p+3])
}

// refVLQ reads a variable length quantity of 1..4 bytes at p (limit end). n = bytes used, 0 = invalid.
func refVLQ(b []byte, p, end int, strict bool) (v uint32, n int) {
	for i := 0; i < 4; i++ {
		if p+i >= end {
			return 0, 0
		}
		c := b[p+i]
		if strict && i == 0 && c == 0x80 {
			return 0, 0 // non-canonical: leading zero digit
		}
		v = v<<7 | uint32(c&0x7F)
		if c&0x80 == 0 {
			return v, i + 1
		}
	}
	return 0, 0 // more than four bytes
}

func refFail(why string) refFile { return refFile{ok: false, why: why} }

func refDecode(b []byte, o refOpts) refFile {
	var f refFile
	if len(b) < 14 {
		return refFail("short header")
	}
	if b[0] != 'M' || b[1] != 'T' || b[2] != 'h' || b[3] != 'd' {
		return refFail("no MThd")
	}
	if refBE32(b, 4) != 6 {
		return refFail("header length")
	}
	f.format = refBE16(b, 8)
	f.ntrks = refBE16(b, 10)
	f.division = refBE16(b, 12)
	if f.format > 2 {
		return refFail("format")
	}
	if f.ntrks == 0 {
		return refFail("no tracks")
	}
	if f.format == 0 && f.ntrks != 1 {
		return refFail("format 0 with several tracks")
	}
	if f.division&0x8000 == 0 {
		if f.division == 0 {
			return refFail("zero division")
		}
	} else {
		fps := int8(f.division >> 8)
		if fps != -24 && fps != -25 && fps != -29 && fps != -30 {
			return refFail("smpte rate")
		}
	}
	p := 14
	for p < len(b) {
		if p+8 > len(b) {
			return refFail("truncated chunk header")
		}
		isTrk := b[p] == 'M' && b[p+1] == 'T' && b[p+2] == 'r' && b[p+3] == 'k'
		ln := refBE32(b, p+4)
		p += 8
		if uint64(ln) > uint64(len(b)-p) {
			return refFail("truncated chunk body")
		}
		end := p + zz.Concrete(int(ln))
		if !isTrk {
			if o.strict {
				return refFail("alien chunk")
			}
			f.aliens++
			p = end
			continue
		}
		if len(f.tracks) == int(f.ntrks) {
			if o.strict {
				return refFail("more MTrk chunks than ntrks")
			}
			p = end
			continue
		}
		tr, ok, why := refTrack(b, p, end, o)
		if !ok {
			return refFail(why)
		}
		f.tracks = append(f.tracks, tr)
		p = end
	}
	if len(f.tracks) != int(f.ntrks) {
		return refFail("missing tracks")
	}
	f.ok = true
	return f
}

func refTrack(b []byte, p, end int, o refOpts) (evs []refEvent, ok bool, why string) {
	var rs byte // running status, 0 = none
	for {
		if p >= end {
			return nil, false, "track without end-of-track"
		}
		d, n := refVLQ(b, p, end, o.strict)
		if n == 0 {
			return nil, false, "bad delta"
		}
		p += n
		if p >= end {
			return nil, false, "missing event"
		}
		c := b[p]
		switch {
		case c == 0xFF:
			if p+2 > end {
				return nil, false, "short meta"
			}
			typ := b[p+1]
			if o.strict && typ >= 0x80 {
				return nil, false, "meta type"
			}
			ln, n := refVLQ(b, p+2, end, o.strict)
			if n == 0 {
				return nil, false, "bad meta length"
			}
			q := p + 2 + n
			if uint64(ln) > uint64(end-q) {
				return nil, false, "meta payload"
			}
			rs = 0
			pl := zz.Concrete(int(ln)) // case split on the (small) payload length
			m := append([]byte{0xFF, typ}, b[q:q+pl]...)
			evs = append(evs, refEvent{delta: d, msg: m, meta: true, typ: typ})
			p = q + pl
			if typ == 0x2F {
				if ln != 0 {
					return nil, false, "end-of-track with payload"
				}
				if p != end {
					return nil, false, "end-of-track before the end of the chunk"
				}
				return evs, true, ""
			}
		case c == 0xF0 || c == 0xF7:
			ln, n := refVLQ(b, p+1, end, o.strict)
			if n == 0 {
				return nil, false, "bad sysex length"
			}
			q := p + 1 + n
			if uint64(ln) > uint64(end-q) {
				return nil, false, "sysex payload"
			}
			rs = 0
			pl := zz.Concrete(int(ln))
			m := append([]byte{c}, b[q:q+pl]...)
			evs = append(evs, refEvent{delta: d, msg: m})
			p = q + pl
		case c >= 0xF1:
			return nil, false, "system common / real-time status in a file"
		default:
			st := c
			if c < 0x80 {
				if rs == 0 {
					return nil, false, "data byte without running status"
				}
				st = rs
			} else {
				p++
			}
			need := 2
			if st&0xF0 == 0xC0 || st&0xF0 == 0xD0 {
				need = 1
			}
			if p+need > end {
				return nil, false, "short channel message"
			}
			m := []byte{st}
			for i := 0; i < need; i++ {
				if b[p+i] >= 0x80 {
					return nil, false, "status byte inside a channel message"
				}
				m = append(m, b[p+i])
			}
			p += need
			rs = st
			evs = append(evs, refEvent{delta: d, msg: m})
		}
	}
}
