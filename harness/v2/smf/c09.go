package smf

// C09: reading does not depend on how the source fragments its data.
// C10: I/O failures are reported.

import (
	"bytes"
	"errors"
	"io"

	zz "gitlab.com/gomidi/midi/v2/internal/zzverif"
)

var c09longPayload int // set by the harness from its parameters (< 128)

// c09file: a two-track format-1 file with fixed structure and symbolic data bytes: running status, tempo meta,
// two-byte deltas (also in the last track), sysex, an alien chunk between the tracks.
func c09file(withAlien bool) []byte {
	d7 := func(n string) byte { v := zz.U8(n); zz.Assume(v < 0x80); return v }
	ch := zz.U8("ch") & 0x0F
	t1 := []byte{d7("d1"), 0x90 | ch, d7("k1"), d7("v1")}
	t1 = append(t1, d7("d2"), d7("k2"), d7("v2")) // running status
	t1 = append(t1, d7("d3"), 0xFF, 0x51, 0x03, zz.U8("t0"), zz.U8("t1"), zz.U8("t2"))
	if c09longPayload > 0 {
		// one sysex whose payload needs many reads when the source delivers a byte at a time
		t1 = append(t1, 0x00, 0xF0, byte(c09longPayload))
		t1 = append(t1, zz.Bytes("long", c09longPayload)...)
	}
	t1 = append(t1, 0x81, d7("d4"), 0xF0, 0x03, zz.U8("x"), zz.U8("y"), zz.U8("z"))
	t1 = append(t1, d7("d5"), 0xFF, 0x2F, 0x00)
	t2 := []byte{d7("e1"), 0xC0 | ch, d7("p")}
	t2 = append(t2, 0x82, d7("e2"), 0xFF, 0x2F, 0x00) // two-byte delta in the last track
	file := c02header(1, 2, 0x01E0)
	file = append(file, c02chunk("MTrk", t1)...)
	if withAlien {
		file = append(file, c02chunk("XFIH", []byte{zz.U8("al0"), zz.U8("al1")})...)
	}
	file = append(file, c02chunk("MTrk", t2)...)
	return file
}

// fragReader delivers data according to a schedule; it never returns (0, nil).
type fragReader struct {
	data    []byte
	pos     int
	calls   int
	kind    int // 0 full reads, 1 one short read at call `at` of `count` bytes, 2 at most `max` bytes per call, 3 one byte for calls in mask
	at      int
	count   int
	max     int
	mask    uint8
	eofWith bool // the last bytes arrive together with io.EOF
}

func (r *fragReader) Read(p []byte) (int, error) {
	if len(p) == 0 {
		return 0, nil
	}
	rem := len(r.data) - r.pos
	if rem == 0 {
		return 0, io.EOF
	}
	n := len(p)
	if n > rem {
		n = rem
	}
	call := r.calls
	r.calls++
	switch r.kind {
	case 1:
		if call == r.at && r.count < n {
			n = r.count
		}
	case 2:
		if n > r.max {
			n = r.max
		}
	case 3:
		if call < 8 && r.mask&(1<<uint(call)) != 0 {
			n = 1
		}
	}
	copy(p, r.data[r.pos:r.pos+n])
	r.pos += n
	if r.eofWith && r.pos == len(r.data) {
		return n, io.EOF
	}
	return n, nil
}

func c09schedule(data []byte) *fragReader {
	r := &fragReader{data: data}
	r.eofWith = zz.Choice("eof-with-data", 2) == 1
	r.kind = zz.Choice("schedule", 4)
	switch r.kind {
	case 1:
		r.at = zz.Choice("short-at-call", zz.Param("maxcall"))
		r.count = 1 + zz.Choice("short-count", 3)
	case 2:
		r.max = 1 + zz.Choice("max-per-call", 3)
	case 3:
		r.mask = zz.U8("one-byte-calls")
	}
	return r
}

func c09errKind(err error) int {
	switch {
	case err == nil:
		return 0
	case err == ErrMissing:
		return 1
	}
	return 2
}

// VerifC09Frag: whole-buffer read vs. fragmented read of the same (valid or truncated) bytes.
func VerifC09Frag() {
	c09longPayload = zz.Param("longpayload")
	file := c09file(zz.Choice("alien", zz.Param("alienchoices")) == zz.Param("alienchoices")-1)
	cut := len(file)
	if zz.Param("truncate") == 1 {
		cut = zz.Choice("cut", len(file)+1)
	}
	data := file[:cut]
	var sa, sb *SMF
	var ea, eb error
	pa := zz.Panics(func() { sa, ea = ReadFrom(bytes.NewReader(data)) })
	fr := c09schedule(data)
	pb := zz.Panics(func() { sb, eb = ReadFrom(fr) })
	zz.Assert(!pa && !pb, "frag:no-panic")
	if pa || pb {
		return
	}
	zz.Assert(c09errKind(ea) == c09errKind(eb), "frag:same-kind-of-result")
	if ea == nil && eb == nil {
		c01sameContent(sa, sb, "frag")
	}
	zz.Reach("end")
}

var errFault = errors.New("injected fault")

// faultWriter accepts `limit` bytes in total, then fails (short count + error): for good, or (recovers) only
// in the one call that crosses the limit, accepting everything again afterwards.
type faultWriter struct {
	limit    int
	n        int
	recovers bool
	failed   bool
}

func (w *faultWriter) Write(p []byte) (int, error) {
	if w.n+len(p) <= w.limit || (w.recovers && w.failed) {
		w.n += len(p)
		return len(p), nil
	}
	k := w.limit - w.n
	if k < 0 {
		k = 0
	}
	w.n += k
	w.failed = true
	return k, errFault
}

// VerifC10Write: a failure at every byte offset of the output stream (the offset is one symbolic integer).
func VerifC10Write() {
	s := genSMF(1)
	T := zz.Param("T")
	for t := 0; t < T; t++ {
		s.Add(genTrack(string(rune('a'+t)), zz.Param("K"), 2, 127))
	}
	var ref bytes.Buffer
	n0, err0 := s.WriteTo(&ref)
	zz.Assert(err0 == nil && n0 == int64(ref.Len()), "write:reference-write-ok")
	total := ref.Len()
	f := zz.Int("fail-after")
	zz.Assume(f >= 0 && f <= total+1)
	w := &faultWriter{limit: f, recovers: zz.Choice("destination-recovers-after-the-failed-call", 2) == 1}
	n, err := s.WriteTo(w)
	if f < total {
		zz.Assert(err != nil, "write:failure-reported")
	} else {
		zz.Assert(err == nil, "write:no-error-when-all-accepted")
		zz.Assert(n == int64(total), "write:size-is-bytes-written")
	}
	zz.Reach("end")
}

// VerifC10WriteBig: the same with a track body of more than L bytes (a writer that splits large chunks into
// several Write calls must report a failure in any of them).
func VerifC10WriteBig() {
	s := genSMF(1)
	var tr Track
	tr.Add(0, MetaText(string(make([]byte, zz.Param("L")))))
	tr.Add(uint32(zz.U8("delta")), []byte{0x90, zz.U8("key") & 0x7F, 1})
	tr.Close(0)
	s.Add(tr)
	var ref bytes.Buffer
	n0, err0 := s.WriteTo(&ref)
	zz.Assert(err0 == nil && n0 == int64(ref.Len()), "write:reference-write-ok")
	total := ref.Len()
	f := zz.Int("fail-after")
	zz.Assume(f >= 0 && f <= total+1)
	w := &faultWriter{limit: f}
	n, err := s.WriteTo(w)
	if f < total {
		zz.Assert(err != nil, "write:failure-reported")
	} else {
		zz.Assert(err == nil, "write:no-error-when-all-accepted")
		zz.Assert(n == int64(total), "write:size-is-bytes-written")
	}
	zz.Reach("end")
}

// faultReader fails with a sticky non-EOF error from byte offset `at` on.
type faultReader struct {
	data     []byte
	pos      int
	at       int
	withData bool // deliver the last good bytes together with the error
}

func (r *faultReader) Read(p []byte) (int, error) {
	if len(p) == 0 {
		return 0, nil
	}
	if r.pos >= r.at {
		return 0, errFault
	}
	n := len(p)
	if n > r.at-r.pos {
		n = r.at - r.pos
	}
	copy(p, r.data[r.pos:r.pos+n])
	r.pos += n
	if r.withData && r.pos == r.at {
		return n, errFault
	}
	return n, nil
}

// VerifC10Read: sticky read error injected at every byte offset of a valid file.
func VerifC10Read() {
	file := c09file(zz.Choice("alien", 2) == 1)
	at := zz.Choice("fail-at", len(file))
	r := &faultReader{data: file, at: at, withData: zz.Choice("error-with-data", 2) == 1}
	var s *SMF
	var err error
	p := zz.Panics(func() { s, err = ReadFrom(r) })
	zz.Assert(!p, "read:no-panic")
	if p {
		return
	}
	zz.Assert(err != nil, "read:failure-reported")
	_ = s
	zz.Reach("end")
}
