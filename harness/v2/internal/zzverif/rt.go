// Package zzverif is the harness runtime. Under the symbolic engine the functions marked "intrinsic"
// are intercepted by name; natively (replay of a solver counterexample) they read the replay vector
// named by $VERIF_REPLAY.
package zzverif

import (
	"fmt"
	"math"
	"runtime"
	"time"
)

// Vector is the replay vector (filled by package zzverifrun natively).
type Vector struct {
	Harness string            `json:"harness"`
	Inputs  map[string]uint64 `json:"inputs"`
	Params  map[string]int    `json:"params"`
}

var vec Vector
var seen = map[string]int{}

// SetVector installs the replay vector (native replay only).
func SetVector(v Vector) { vec = v; seen = map[string]int{} }

// Failure is the panic value of a failed native Assert.
type Failure struct{ ID string }

// Skip is the panic value of a false native Assume.
type Skip struct{ Why string }

func name(n string) string {
	k := seen[n]
	seen[n] = k + 1
	if k == 0 {
		return n
	}
	return fmt.Sprintf("%s#%d", n, k)
}

func in(n string) uint64 { return vec.Inputs[name(n)] }

// intrinsics: fresh symbolic inputs
func U8(n string) uint8   { return uint8(in(n)) }
func U16(n string) uint16 { return uint16(in(n)) }
func U32(n string) uint32 { return uint32(in(n)) }
func U64(n string) uint64 { return in(n) }
func I8(n string) int8    { return int8(in(n)) }
func I16(n string) int16  { return int16(in(n)) }
func I32(n string) int32  { return int32(in(n)) }
func I64(n string) int64  { return int64(in(n)) }
func Int(n string) int    { return int(in(n)) }
func Bool(n string) bool  { return in(n) != 0 }

// Bytes returns n fresh symbolic bytes (intrinsic).
func Bytes(n string, k int) []byte {
	nm := name(n)
	b := make([]byte, k)
	for i := range b {
		b[i] = byte(vec.Inputs[fmt.Sprintf("%s[%d]", nm, i)])
	}
	return b
}

// Str returns a string of n fresh symbolic bytes (intrinsic).
func Str(n string, k int) string { return string(Bytes(n, k)) }

// Choice returns a value in [0,k); the engine forks over all of them (intrinsic).
func Choice(n string, k int) int {
	v := int(in(n))
	if v < 0 || v >= k {
		panic(Skip{"choice out of range"})
	}
	return v
}

// Concrete forces the engine to fork over the feasible values of x (intrinsic); identity natively.
func Concrete(x int) int { return x }

// Param is a concrete bound set per tier in the registry (intrinsic).
func Param(n string) int {
	v, ok := vec.Params[n]
	if !ok {
		panic("missing param " + n)
	}
	return v
}

// Assume restricts the inputs (intrinsic).
func Assume(c bool) {
	if !c {
		panic(Skip{"assumption false"})
	}
}

// Assert is the property (intrinsic: deciding query).
func Assert(c bool, id string) {
	if !c {
		panic(Failure{id})
	}
}

// Fail is Assert(false, id).
func Fail(id string) { panic(Failure{id}) }

// Reach marks a point that must be reachable (vacuity guard).
func Reach(id string) {}

// Known marks the region of a recorded finding (see known_findings.json).
func Known(id string, c bool) {}

// AllocLimit sets the per-allocation bound checked by the engine.
func AllocLimit(n int) {}

// StepBudget sets the per-path step budget of the engine.
func StepBudget(n int) {}

// Symbolic reports whether the code runs under the engine.
func Symbolic() bool { return false }

// F64 is a real-valued input in [lo,hi] (arithmetic mode only).
func F64(n string, lo, hi float64) float64 {
	f := math.Float64frombits(in(n)) // the solver's rational value rounded to float64
	if !(f >= lo && f <= hi) {
		panic(Skip{"float input out of range"})
	}
	return f
}

// B2I is 1 for true, 0 for false, without a fork under the engine (intrinsic).
func B2I(b bool) int {
	if b {
		return 1
	}
	return 0
}

// And is a non-short-circuit conjunction (no fork under the engine; intrinsic).
func And(bs ...bool) bool {
	for _, b := range bs {
		if !b {
			return false
		}
	}
	return true
}

// Or is a non-short-circuit disjunction (intrinsic).
func Or(bs ...bool) bool {
	for _, b := range bs {
		if b {
			return true
		}
	}
	return false
}

// Implies is !a || b without a fork (intrinsic).
func Implies(a, b bool) bool { return !a || b }

// IteInt selects without a fork (intrinsic).
func IteInt(c bool, a, b int) int {
	if c {
		return a
	}
	return b
}

// IteU8 selects without a fork (intrinsic).
func IteU8(c bool, a, b uint8) uint8 {
	if c {
		return a
	}
	return b
}

// AllocGuard runs f; under the engine every single allocation inside f larger than limit bytes is a
// violation ("alloc-bound"); natively the bytes allocated while f runs are measured.
func AllocGuard(limit int, f func()) {
	var a, b runtime.MemStats
	runtime.ReadMemStats(&a)
	f()
	runtime.ReadMemStats(&b)
	if b.TotalAlloc-a.TotalAlloc > uint64(limit) {
		panic(Failure{"alloc-bound"})
	}
}

// ClockNs is the engine's virtual clock (the wall clock natively).
func ClockNs() int64 { return time.Now().UnixNano() }

// InRange asserts lo <= x <= hi (assertion id) and hands the engine's interval analysis that range (intrinsic).
func InRange(x, lo, hi int64, id string) int64 {
	Assert(x >= lo && x <= hi, id)
	return x
}

// Within runs f and reports whether it returned within the given number of seconds. Under the engine f is run
// in place and the result is false exactly when the call sequence would block on a lock it already holds.
func Within(seconds int, f func()) bool {
	done := make(chan struct{})
	go func() {
		defer close(done)
		f()
	}()
	select {
	case <-done:
		return true
	case <-time.After(time.Duration(seconds) * time.Second):
		return false
	}
}

// IgnoreGo tells the engine to skip go statements (only the calling path is analysed). No-op natively.
func IgnoreGo() {}

// Oracle names an environment decision for the engine's stubs (e.g. "process-cannot-be-started"). No-op natively.
func Oracle(name string, v bool) {}

// RealDelay lets real time pass natively (3 ms); under the engine the wall clock advances by an arbitrary
// amount at every time.Now() anyway.
func RealDelay() { time.Sleep(3 * time.Millisecond) }

// Panics runs f and reports whether it panicked (ordinary Go; interpreted by the engine as is).
func Panics(f func()) (p bool) {
	defer func() {
		if r := recover(); r != nil {
			if _, ok := r.(Failure); ok {
				panic(r)
			}
			if _, ok := r.(Skip); ok {
				panic(r)
			}
			p = true
		}
	}()
	f()
	return false
}

