// Package zzverifrun drives the native replay of a solver counterexample (never loaded by the engine).
package zzverifrun

import (
	"encoding/json"
	"fmt"
	"os"
	"strings"
	"testing"

	"gitlab.com/gomidi/midi/v2/internal/zzverif"
)

// RunReplay is called by the generated TestVerifReplay. $VERIF_REPLAY names a file holding one vector or a list.
func RunReplay(t *testing.T, hs map[string]func()) {
	p := os.Getenv("VERIF_REPLAY")
	b, err := os.ReadFile(p)
	if err != nil {
		fmt.Printf("VERIF-RESULT: error %v\n", err)
		t.Fatal(err)
	}
	var vecs []zzverif.Vector
	if err := json.Unmarshal(b, &vecs); err != nil {
		var one zzverif.Vector
		if err := json.Unmarshal(b, &one); err != nil {
			fmt.Printf("VERIF-RESULT: error %v\n", err)
			t.Fatal(err)
		}
		vecs = []zzverif.Vector{one}
	}
	for _, vec := range vecs {
		runOne(t, hs, vec)
	}
}

func runOne(t *testing.T, hs map[string]func(), vec zzverif.Vector) {
	zzverif.SetVector(vec)
	h, ok := hs[vec.Harness]
	if !ok {
		fmt.Printf("VERIF-RESULT: error unknown harness %q\n", vec.Harness)
		return
	}
	defer func() {
		r := recover()
		switch x := r.(type) {
		case nil:
			fmt.Printf("VERIF-RESULT: pass\n")
		case zzverif.Failure:
			fmt.Printf("VERIF-RESULT: fail %s\n", x.ID)
		case zzverif.Skip:
			fmt.Printf("VERIF-RESULT: skip %s\n", x.Why)
		default:
			msg := strings.ReplaceAll(fmt.Sprint(r), "\n", " ")
			fmt.Printf("VERIF-RESULT: panic %s\n", msg)
		}
	}()
	h()
}
