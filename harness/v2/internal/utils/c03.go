package utils

// C03 (variable-length quantities): one solver query per length class covers all 2^32 values.

import (
	"bytes"

	zz "gitlab.com/gomidi/midi/v2/internal/zzverif"
)

func VerifC03Vlq() {
	n := zz.U32("n")
	out := VlqEncode(n)
	L := len(out)
	// length: shortest form
	want := 1
	if n >= 1<<7 {
		want = 2
	}
	if n >= 1<<14 {
		want = 3
	}
	if n >= 1<<21 {
		want = 4
	}
	if n >= 1<<28 {
		want = 5
	}
	zz.Assert(L == want, "shortest-length")
	if n <= 0x0FFFFFFF {
		zz.Assert(L <= 4, "at-most-four-bytes")
	}
	zz.Assert(L == 1 || out[0] != 0x80, "no-leading-zero-digit")
	// continuation bits exactly on all but the last byte; arithmetic decode
	var v uint64
	for i := 0; i < L; i++ {
		if i < L-1 {
			zz.Assert(out[i]&0x80 == 0x80, "continuation-bit-set")
		} else {
			zz.Assert(out[i]&0x80 == 0, "last-byte-no-continuation")
		}
		v = v<<7 | uint64(out[i]&0x7F)
	}
	zz.Assert(v == uint64(n), "arithmetic-decode")
	zz.Assert(VlqDecode(out) == n, "VlqDecode-inverts")
	got, err := ReadVarLength(bytes.NewReader(out))
	zz.Assert(err == nil, "ReadVarLength-ok")
	zz.Assert(got == n, "ReadVarLength-inverts")
	// followed by more data the reader must stop after the quantity
	more := append(append([]byte{}, out...), zz.U8("next"))
	rd := bytes.NewReader(more)
	got2, err2 := ReadVarLength(rd)
	zz.Assert(err2 == nil && got2 == n, "ReadVarLength-stops-at-end")
	zz.Assert(rd.Len() == 1, "ReadVarLength-consumes-exactly")
	zz.Reach("end")
}
