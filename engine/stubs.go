package main

// Intrinsics: the harness runtime (zzverif) and environment models for standard-library functions.

import (
	"fmt"
	"go/types"
	"math"
	"math/big"
	"strings"

	"golang.org/x/tools/go/ssa"
)

type deadlockSignal struct{ why string }

type intrinsic func(e *Exec, fn *ssa.Function, args []Value, caller *Frame) (Value, *GoPanic)

var intrinsics = map[string]intrinsic{}

const zzPath = "gitlab.com/gomidi/midi/v2/internal/zzverif"

func concStr(e *Exec, v Value, what string) string {
	s, ok := v.(StrV)
	if !ok || s.sym != nil {
		e.unsupported("%s must be a concrete string", what)
	}
	return s.s
}

func concInt(e *Exec, v Value, what string) int64 {
	t := v.(*Term)
	if t.op == OpRConst {
		return t.rat.Num().Int64()
	}
	if !t.IsConst() {
		e.unsupported("%s must be concrete", what)
	}
	return sext64(t.val, t.sort.W)
}

func (e *Exec) intInput(name string, w int, signed bool) Value {
	if e.arith {
		t := e.ctx.Var(e.inputName(name), IntSort)
		e.inputs = append(e.inputs, t)
		e.arithRangeVar(t, w, signed)
		return t
	}
	return e.newInput(name, BV(w))
}

func init() {
	reg := func(name string, f intrinsic) { intrinsics[zzPath+"."+name] = f }
	mkInt := func(w int, signed bool) intrinsic {
		return func(e *Exec, fn *ssa.Function, args []Value, caller *Frame) (Value, *GoPanic) {
			return e.intInput(concStr(e, args[0], "input name"), w, signed), nil
		}
	}
	reg("U8", mkInt(8, false))
	reg("U16", mkInt(16, false))
	reg("U32", mkInt(32, false))
	reg("U64", mkInt(64, false))
	reg("I8", mkInt(8, true))
	reg("I16", mkInt(16, true))
	reg("I32", mkInt(32, true))
	reg("I64", mkInt(64, true))
	reg("Int", mkInt(64, true))
	reg("Bool", func(e *Exec, fn *ssa.Function, args []Value, caller *Frame) (Value, *GoPanic) {
		return e.newInput(concStr(e, args[0], "input name"), BoolSort), nil
	})
	reg("Bytes", func(e *Exec, fn *ssa.Function, args []Value, caller *Frame) (Value, *GoPanic) {
		name := concStr(e, args[0], "input name")
		n := int(concInt(e, args[1], "Bytes length"))
		bs := make([]*Term, n)
		for i := range bs {
			bs[i] = e.newInput(fmt.Sprintf("%s[%d]", name, i), BV(8))
		}
		return e.bytesToSlice(bs), nil
	})
	reg("Str", func(e *Exec, fn *ssa.Function, args []Value, caller *Frame) (Value, *GoPanic) {
		name := concStr(e, args[0], "input name")
		n := int(concInt(e, args[1], "Str length"))
		bs := make([]*Term, n)
		for i := range bs {
			bs[i] = e.newInput(fmt.Sprintf("%s[%d]", name, i), BV(8))
		}
		return e.mkStr(bs), nil
	})
	reg("Choice", func(e *Exec, fn *ssa.Function, args []Value, caller *Frame) (Value, *GoPanic) {
		name := concStr(e, args[0], "input name")
		n := concInt(e, args[1], "Choice bound")
		if n <= 0 {
			panic(pathEnd{"infeasible", "Choice(0)"})
		}
		t := e.newInput(name, BV(64))
		e.assume(e.ctx.Cmp(OpUlt, t, e.ctx.Const(64, uint64(n))))
		v := e.concretize(t, "choice "+name)
		e.w.stats.noteChoice(name, int(n))
		return e.intTerm(int64(v)), nil
	})
	reg("Concrete", func(e *Exec, fn *ssa.Function, args []Value, caller *Frame) (Value, *GoPanic) {
		t := args[0].(*Term)
		v := e.concretize(t, "Concrete")
		return e.ctx.Const(t.sort.W, v), nil
	})
	reg("Param", func(e *Exec, fn *ssa.Function, args []Value, caller *Frame) (Value, *GoPanic) {
		name := concStr(e, args[0], "param name")
		v, ok := e.h.Params[name]
		if !ok {
			e.unsupported("harness parameter %q not set", name)
		}
		return e.intTerm(int64(v)), nil
	})
	reg("Assume", func(e *Exec, fn *ssa.Function, args []Value, caller *Frame) (Value, *GoPanic) {
		e.assume(args[0].(*Term))
		return nil, nil
	})
	reg("Assert", func(e *Exec, fn *ssa.Function, args []Value, caller *Frame) (Value, *GoPanic) {
		e.assertion(args[0].(*Term), concStr(e, args[1], "assertion id"))
		return nil, nil
	})
	reg("Fail", func(e *Exec, fn *ssa.Function, args []Value, caller *Frame) (Value, *GoPanic) {
		e.assertion(e.ctx.False, concStr(e, args[0], "assertion id"))
		return nil, nil
	})
	reg("Reach", func(e *Exec, fn *ssa.Function, args []Value, caller *Frame) (Value, *GoPanic) {
		id := concStr(e, args[0], "reach id")
		if e.reached == nil {
			e.reached = map[string]bool{}
		}
		e.reached[id] = true
		e.w.stats.noteReach(id)
		return nil, nil
	})
	reg("Known", func(e *Exec, fn *ssa.Function, args []Value, caller *Frame) (Value, *GoPanic) {
		id := concStr(e, args[0], "finding id")
		c := args[1].(*Term)
		st := e.eng.findingStatus(id)
		if st != "known" {
			// fixed or unlisted: the marker suppresses nothing
			return nil, nil
		}
		if e.branch(c, nil) {
			if e.known == "" {
				e.known = id
			}
		}
		return nil, nil
	})
	reg("AllocLimit", func(e *Exec, fn *ssa.Function, args []Value, caller *Frame) (Value, *GoPanic) {
		e.allocLimit = concInt(e, args[0], "alloc limit")
		return nil, nil
	})
	reg("StepBudget", func(e *Exec, fn *ssa.Function, args []Value, caller *Frame) (Value, *GoPanic) {
		e.stepBudget = int(concInt(e, args[0], "step budget"))
		return nil, nil
	})
	reg("Symbolic", func(e *Exec, fn *ssa.Function, args []Value, caller *Frame) (Value, *GoPanic) {
		return e.ctx.True, nil
	})
	reg("Observe", func(e *Exec, fn *ssa.Function, args []Value, caller *Frame) (Value, *GoPanic) {
		return nil, nil
	})
	reg("B2I", func(e *Exec, fn *ssa.Function, args []Value, caller *Frame) (Value, *GoPanic) {
		return e.ctx.Ite(args[0].(*Term), e.ctx.Const(64, 1), e.ctx.Const(64, 0)), nil
	})
	boolFold := func(and bool) intrinsic {
		return func(e *Exec, fn *ssa.Function, args []Value, caller *Frame) (Value, *GoPanic) {
			acc := e.ctx.Bool(and)
			s, ok := args[0].(SliceV)
			if ok && s.base.obj != nil {
				for i := 0; i < s.len; i++ {
					t := e.sliceGet(s, i).(*Term)
					if and {
						acc = e.ctx.BAnd(acc, t)
					} else {
						acc = e.ctx.BOr(acc, t)
					}
				}
			}
			return acc, nil
		}
	}
	reg("And", boolFold(true))
	reg("Or", boolFold(false))
	reg("Implies", func(e *Exec, fn *ssa.Function, args []Value, caller *Frame) (Value, *GoPanic) {
		return e.ctx.BOr(e.ctx.BNot(args[0].(*Term)), args[1].(*Term)), nil
	})
	reg("IteInt", func(e *Exec, fn *ssa.Function, args []Value, caller *Frame) (Value, *GoPanic) {
		return e.ctx.Ite(args[0].(*Term), args[1].(*Term), args[2].(*Term)), nil
	})
	reg("IteU8", func(e *Exec, fn *ssa.Function, args []Value, caller *Frame) (Value, *GoPanic) {
		return e.ctx.Ite(args[0].(*Term), args[1].(*Term), args[2].(*Term)), nil
	})
	reg("AllocGuard", func(e *Exec, fn *ssa.Function, args []Value, caller *Frame) (Value, *GoPanic) {
		old := e.allocLimit
		e.allocLimit = concInt(e, args[0], "alloc limit")
		_, p := e.callValue(args[1], nil, nil, caller, nil)
		e.allocLimit = old
		return nil, p
	})
	reg("InRange", func(e *Exec, fn *ssa.Function, args []Value, caller *Frame) (Value, *GoPanic) {
		x := args[0].(*Term)
		lo, hi := concInt(e, args[1], "range bound"), concInt(e, args[2], "range bound")
		id := concStr(e, args[3], "assertion id")
		if x.sort.K != KInt {
			e.assertion(e.ctx.BAnd(e.ctx.Cmp(OpSle, e.ctx.Const(64, uint64(lo)), x), e.ctx.Cmp(OpSle, x, e.ctx.Const(64, uint64(hi)))), id)
			return x, nil
		}
		c := e.ctx
		e.assertion(c.BAnd(c.RCmp(OpRLe, c.IntConst(lo), x), c.RCmp(OpRLe, x, c.IntConst(hi))), id)
		e.realN++
		y := c.Var(fmt.Sprintf("ranged!%d", e.realN), IntSort)
		e.assumeQuiet(c.Eq(y, x))
		e.assumeQuiet(c.RCmpRaw(OpRLe, c.IntConst(lo), y))
		e.assumeQuiet(c.RCmpRaw(OpRLe, y, c.IntConst(hi)))
		c.setInfo(y, big.NewInt(lo), big.NewInt(hi), 0)
		return y, nil
	})
	reg("F64", func(e *Exec, fn *ssa.Function, args []Value, caller *Frame) (Value, *GoPanic) {
		if !e.arith {
			e.unsupported("F64 input outside arithmetic mode")
		}
		name := concStr(e, args[0], "input name")
		lo, hi := args[1].(FloatV).f, args[2].(FloatV).f
		t := e.ctx.Var(e.inputName(name), RealSort)
		e.inputs = append(e.inputs, t)
		e.assumeQuiet(e.ctx.RCmp(OpRLe, e.ctx.RealConstF(lo), t))
		e.assumeQuiet(e.ctx.RCmp(OpRLe, t, e.ctx.RealConstF(hi)))
		if lo >= 0 {
			e.ctx.markNonNeg(t)
		}
		return RealV{t}, nil
	})

	// ---- fmt / errors ----
	errorf := func(e *Exec, fn *ssa.Function, args []Value, caller *Frame) (Value, *GoPanic) {
		msg := "<formatted>"
		if s, ok := args[0].(StrV); ok && s.sym == nil {
			msg = s.s
		}
		return e.newError(msg), nil
	}
	intrinsics["fmt.Errorf"] = errorf
	sprintf := func(e *Exec, fn *ssa.Function, args []Value, caller *Frame) (Value, *GoPanic) {
		if p := e.evalStringers(args[len(args)-1], caller); p != nil {
			return nil, p
		}
		if s, ok := args[0].(StrV); ok && s.sym == nil {
			return StrV{s: "<fmt:" + s.s + ">"}, nil
		}
		return StrV{s: "<fmt>"}, nil
	}
	intrinsics["fmt.Sprintf"] = sprintf
	sprint := func(e *Exec, fn *ssa.Function, args []Value, caller *Frame) (Value, *GoPanic) {
		if p := e.evalStringers(args[len(args)-1], caller); p != nil {
			return nil, p
		}
		return StrV{s: "<fmt>"}, nil
	}
	intrinsics["fmt.Sprint"] = sprint
	intrinsics["fmt.Sprintln"] = sprint
	printTuple := func(e *Exec, fn *ssa.Function, args []Value, caller *Frame) (Value, *GoPanic) {
		return TupleV{e.intTerm(0), IfaceV{}}, nil
	}
	intrinsics["fmt.Println"] = printTuple
	intrinsics["fmt.Printf"] = printTuple
	intrinsics["fmt.Print"] = printTuple
	intrinsics["fmt.Fprintf"] = printTuple
	intrinsics["fmt.Fprintln"] = printTuple
	intrinsics["fmt.Fprint"] = printTuple
	intrinsics["errors.Is"] = func(e *Exec, fn *ssa.Function, args []Value, caller *Frame) (Value, *GoPanic) {
		err, target := args[0], args[1]
		for i := 0; i < 10; i++ {
			eq := e.valueEq(err, target)
			if !eq.IsFalse() {
				if eq.IsTrue() {
					return eq, nil
				}
				e.unsupported("errors.Is with symbolic equality")
			}
			iv := err.(IfaceV)
			if iv.typ == nil {
				return e.ctx.False, nil
			}
			m := e.eng.lookupMethod(iv.typ, nil, "Unwrap")
			if m == nil {
				return e.ctx.False, nil
			}
			r, p := e.callFunction(m, []Value{iv.val}, nil, caller, nil)
			if p != nil {
				return nil, p
			}
			err = r
		}
		return e.ctx.False, nil
	}

	// io.CopyN(dst, src, n): when dst is io.Discard the copy is modelled as n one-byte reads of src
	// (io.Reader contract; the real code reads through an 8 KiB pooled buffer and a LimitedReader).
	intrinsics["io.CopyN"] = func(e *Exec, fn *ssa.Function, args []Value, caller *Frame) (Value, *GoPanic) {
		dst, ok := args[0].(IfaceV)
		if !ok || dst.typ == nil || !strings.HasSuffix(dst.typ.String(), "io.discard") {
			e.unsupported("io.CopyN to a writer other than io.Discard")
		}
		src := args[1].(IfaceV)
		n := args[2].(*Term)
		rd := e.eng.lookupMethod(src.typ, nil, "Read")
		if rd == nil {
			e.unsupported("io.CopyN: source without Read")
		}
		buf := e.makeSlice(types.Typ[types.Uint8], 1, 1)
		var i int64
		for {
			if !e.branch(e.ctx.Cmp(OpSlt, e.ctx.Const(64, uint64(i)), n), nil) {
				return TupleV{e.ctx.Const(64, uint64(i)), IfaceV{}}, nil
			}
			r, p := e.callFunction(rd, []Value{src.val, buf}, nil, caller, nil)
			if p != nil {
				return nil, p
			}
			tv := r.(TupleV)
			got := tv[0].(*Term)
			err := tv[1].(IfaceV)
			if !got.IsConst() {
				e.unsupported("io.CopyN: symbolic read count")
			}
			i += int64(got.val)
			if err.typ != nil {
				// io.CopyN: EOF before n bytes is reported as io.EOF, other errors are passed through
				if i >= 1 && e.ctx.Eq(e.ctx.Const(64, uint64(i)), n).IsTrue() {
					return TupleV{e.ctx.Const(64, uint64(i)), IfaceV{}}, nil
				}
				if !e.branch(e.ctx.Cmp(OpSlt, e.ctx.Const(64, uint64(i)), n), nil) {
					return TupleV{e.ctx.Const(64, uint64(i)), IfaceV{}}, nil
				}
				return TupleV{e.ctx.Const(64, uint64(i)), err}, nil
			}
			if got.val == 0 {
				e.unsupported("io.CopyN: reader returned 0, nil")
			}
			if i > 1<<20 {
				panic(pathEnd{"budget", "io.CopyN model: more than 2^20 bytes skipped"})
			}
		}
	}

	// fmt.Sscanf contract stubs (C19): "%d" into *int32 on a concrete string (real strconv semantics via fmt),
	// "%X" into *[]byte on a string of possibly symbolic characters: the maximal prefix of hex digit pairs;
	// error if there is no pair, or if a pair's second character is missing or not a hex digit.
	intrinsics["fmt.Sscanf"] = func(e *Exec, fn *ssa.Function, args []Value, caller *Frame) (Value, *GoPanic) {
		c := e.ctx
		format := concStr(e, args[1], "Sscanf format")
		targets := args[2].(SliceV)
		if targets.len != 1 {
			e.unsupported("fmt.Sscanf with %d targets", targets.len)
		}
		tgt := e.sliceGet(targets, 0).(IfaceV).val.(Ptr)
		in := args[0].(StrV)
		switch format {
		case "%d":
			if in.sym != nil {
				// symbolic characters: fmt scans the longest prefix [sign] digits and ignores the rest; the
				// prefix must be concrete here (a symbolic character may only be a non-digit, which ends the scan)
				var prefix []byte
				for i, ch := range in.sym {
					if ch.IsConst() {
						cb := byte(ch.val)
						if (cb >= '0' && cb <= '9') || (i == 0 && (cb == '-' || cb == '+')) {
							prefix = append(prefix, cb)
							continue
						}
						break
					}
					isDigit := c.BAnd(c.Cmp(OpUle, c.Const(8, '0'), ch), c.Cmp(OpUle, ch, c.Const(8, '9')))
					signOK := c.False
					if i == 0 {
						signOK = c.BOr(c.Eq(ch, c.Const(8, '-')), c.Eq(ch, c.Const(8, '+')))
					}
					if e.branch(c.BOr(isDigit, signOK), nil) {
						e.unsupported("fmt.Sscanf(%%d) on a symbolic digit")
					}
					break
				}
				in = StrV{s: string(prefix)}
			}
			var v int32
			n, err := fmt.Sscanf(in.s, "%d", &v)
			if err != nil {
				return TupleV{e.intTerm(int64(n)), e.newError("sscanf: " + err.Error())}, nil
			}
			e.store(tgt, c.Const(32, uint64(uint32(v))))
			return TupleV{e.intTerm(1), IfaceV{}}, nil
		case "%X", "%x":
			chars := e.strBytes(in)
			isHex := func(ch *Term) *Term {
				rng := func(lo, hi byte) *Term {
					return c.BAnd(c.Cmp(OpUle, c.Const(8, uint64(lo)), ch), c.Cmp(OpUle, ch, c.Const(8, uint64(hi))))
				}
				return c.BOr(rng('0', '9'), c.BOr(rng('a', 'f'), rng('A', 'F')))
			}
			val := func(ch *Term) *Term {
				d := c.BinBV(OpSub, ch, c.Const(8, '0'))
				lo := c.BinBV(OpAdd, c.BinBV(OpSub, ch, c.Const(8, 'a')), c.Const(8, 10))
				up := c.BinBV(OpAdd, c.BinBV(OpSub, ch, c.Const(8, 'A')), c.Const(8, 10))
				return c.Ite(c.Cmp(OpUle, ch, c.Const(8, '9')), d, c.Ite(c.Cmp(OpUle, c.Const(8, 'a'), ch), lo, up))
			}
			var out []*Term
			i := 0
			for i < len(chars) {
				if !e.branch(isHex(chars[i]), nil) {
					break // first character of a pair is not a hex digit: the scan stops here
				}
				if i+1 >= len(chars) {
					return TupleV{e.intTerm(0), e.newError("sscanf: unexpected EOF")}, nil
				}
				if !e.branch(isHex(chars[i+1]), nil) {
					return TupleV{e.intTerm(0), e.newError("sscanf: illegal hex digit")}, nil
				}
				out = append(out, c.BinBV(OpOr, c.BinBV(OpShl, val(chars[i]), c.Const(8, 4)), val(chars[i+1])))
				i += 2
			}
			if len(out) == 0 {
				msg := "sscanf: no hex data for %x string"
				if len(chars) == 0 {
					msg = "sscanf: unexpected EOF"
				}
				return TupleV{e.intTerm(0), e.newError(msg)}, nil
			}
			e.store(tgt, e.bytesToSlice(out))
			return TupleV{e.intTerm(1), IfaceV{}}, nil
		}
		e.unsupported("fmt.Sscanf format %q", format)
		return nil, nil
	}

	// ---- reflect ----
	intrinsics["reflect.DeepEqual"] = func(e *Exec, fn *ssa.Function, args []Value, caller *Frame) (Value, *GoPanic) {
		return e.deepEq(args[0], args[1], 0), nil
	}

	// ---- sync / runtime ----
	nop := func(e *Exec, fn *ssa.Function, args []Value, caller *Frame) (Value, *GoPanic) { return nil, nil }
	// mutexes: holder state per mutex on this (sequential) path; acquiring a lock the path already holds is a
	// self-deadlock (sync mutexes are not reentrant) and is signalled to zz.Within as "blocks forever"
	lockOp := func(kind string) intrinsic {
		return func(e *Exec, fn *ssa.Function, args []Value, caller *Frame) (Value, *GoPanic) {
			key, ok := concreteKey(args[0])
			if !ok {
				e.unsupported("mutex with symbolic address")
			}
			if e.locks == nil {
				e.locks = map[string]*[2]int{}
			}
			st := e.locks[key]
			if st == nil {
				st = &[2]int{}
				e.locks[key] = st
			}
			switch kind {
			case "Lock":
				if st[0] > 0 || st[1] > 0 {
					panic(deadlockSignal{"Lock on a mutex this call sequence already holds (" + fn.String() + ")"})
				}
				st[0] = 1
			case "Unlock":
				st[0] = 0
			case "RLock":
				if st[0] > 0 {
					panic(deadlockSignal{"RLock on a mutex this call sequence holds for writing"})
				}
				st[1]++
			case "RUnlock":
				if st[1] > 0 {
					st[1]--
				}
			}
			return nil, nil
		}
	}
	intrinsics["(*sync.Mutex).Lock"] = lockOp("Lock")
	intrinsics["(*sync.Mutex).Unlock"] = lockOp("Unlock")
	intrinsics["(*sync.RWMutex).Lock"] = lockOp("Lock")
	intrinsics["(*sync.RWMutex).Unlock"] = lockOp("Unlock")
	intrinsics["(*sync.RWMutex).RLock"] = lockOp("RLock")
	intrinsics["(*sync.RWMutex).RUnlock"] = lockOp("RUnlock")
	reg("Within", func(e *Exec, fn *ssa.Function, args []Value, caller *Frame) (res Value, gp *GoPanic) {
		defer func() {
			if r := recover(); r != nil {
				if d, ok := r.(deadlockSignal); ok {
					e.w.stats.noteReach("deadlock:" + d.why)
					res, gp = e.ctx.False, nil
					return
				}
				panic(r)
			}
		}()
		_, p := e.callValue(args[1], nil, nil, caller, nil)
		if p != nil {
			return nil, p
		}
		return e.ctx.True, nil
	})
	reg("IgnoreGo", func(e *Exec, fn *ssa.Function, args []Value, caller *Frame) (Value, *GoPanic) {
		e.ignoreGo = true
		return nil, nil
	})
	reg("Oracle", func(e *Exec, fn *ssa.Function, args []Value, caller *Frame) (Value, *GoPanic) {
		if e.oracles == nil {
			e.oracles = map[string]*Term{}
		}
		e.oracles[concStr(e, args[0], "oracle name")] = args[1].(*Term)
		return nil, nil
	})
	// process start and pipes (midicatdrv): the helper process is not modelled, only whether it can be started
	intrinsics["os/exec.Command"] = func(e *Exec, fn *ssa.Function, args []Value, caller *Frame) (Value, *GoPanic) {
		t := fn.Signature.Results().At(0).Type().(*types.Pointer).Elem()
		return Ptr{obj: e.newObject(e.zero(t), t, "exec.Cmd")}, nil
	}
	intrinsics["(*os/exec.Cmd).Start"] = func(e *Exec, fn *ssa.Function, args []Value, caller *Frame) (Value, *GoPanic) {
		fails, ok := e.oracles["process-cannot-be-started"]
		if !ok {
			e.unsupported("exec.Cmd.Start without a zz.Oracle(\"process-cannot-be-started\", ...)")
		}
		if e.branch(fails, nil) {
			return e.newError("exec: \"midicat\": executable file not found in $PATH"), nil
		}
		return IfaceV{}, nil
	}
	intrinsics["io.Pipe"] = func(e *Exec, fn *ssa.Function, args []Value, caller *Frame) (Value, *GoPanic) {
		rt := fn.Signature.Results().At(0).Type().(*types.Pointer).Elem()
		wt := fn.Signature.Results().At(1).Type().(*types.Pointer).Elem()
		return TupleV{Ptr{obj: e.newObject(PoisonV{"pipe"}, rt, "io.PipeReader")}, Ptr{obj: e.newObject(PoisonV{"pipe"}, wt, "io.PipeWriter")}}, nil
	}
	nilErr := func(e *Exec, fn *ssa.Function, args []Value, caller *Frame) (Value, *GoPanic) { return IfaceV{}, nil }
	intrinsics["(*io.PipeReader).Close"] = nilErr
	intrinsics["(*io.PipeWriter).Close"] = nilErr
	intrinsics["(*os.Process).Kill"] = nilErr
	for _, n := range []string{"runtime.LockOSThread", "runtime.UnlockOSThread", "runtime.Gosched",
		"runtime.GC", "(*sync.WaitGroup).Add", "(*sync.WaitGroup).Done", "(*sync.WaitGroup).Wait"} {
		intrinsics[n] = nop
	}
	// sync.Pool: Put remembers the value; Get may hand out the value put last (what a single goroutine usually
	// observes) or a new one (always allowed): both are explored, the decision is a free symbolic bit.
	intrinsics["(*sync.Pool).Put"] = func(e *Exec, fn *ssa.Function, args []Value, caller *Frame) (Value, *GoPanic) {
		p := args[0].(Ptr)
		if e.pooled == nil {
			e.pooled = map[int][]Value{}
		}
		e.pooled[p.obj.id] = append(e.pooled[p.obj.id], args[1])
		return nil, nil
	}
	intrinsics["(*sync.Pool).Get"] = func(e *Exec, fn *ssa.Function, args []Value, caller *Frame) (Value, *GoPanic) {
		p := args[0].(Ptr)
		if items := e.pooled[p.obj.id]; len(items) > 0 {
			bit := e.newInput("pool-hands-out-the-last-put-value", BV(8))
			if e.branch(e.ctx.Eq(bit, e.ctx.Const(8, 1)), nil) {
				e.pooled[p.obj.id] = items[:len(items)-1]
				return items[len(items)-1], nil
			}
		}
		// field "New" is the last field of sync.Pool
		pt := fn.Signature.Recv().Type().(*types.Pointer).Elem().Underlying().(*types.Struct)
		for i := 0; i < pt.NumFields(); i++ {
			if pt.Field(i).Name() == "New" {
				f := e.load(Ptr{obj: p.obj, path: append(append([]interface{}{}, p.path...), i)})
				if cl, ok := f.(*ClosureV); ok && cl != nil {
					return e.callValue(cl, nil, nil, caller, nil)
				}
			}
		}
		return IfaceV{}, nil
	}
	intrinsics["(*sync.Once).Do"] = func(e *Exec, fn *ssa.Function, args []Value, caller *Frame) (Value, *GoPanic) {
		p := args[0].(Ptr)
		key := fmt.Sprintf("once%d", p.obj.id)
		if e.onceDone == nil {
			e.onceDone = map[string]bool{}
		}
		if e.onceDone[key] {
			return nil, nil
		}
		e.onceDone[key] = true
		return e.callValue(args[1], nil, nil, caller, nil)
	}

	// ---- time: virtual clock. A time.Time is carried as {wall: 0, ext: virtual nanoseconds, loc: nil}. ----
	mkTime := func(e *Exec, ns *Term) Value {
		return &StructV{f: []Value{e.ctx.Const(64, 0), ns, Ptr{}}}
	}
	timeNs := func(v Value) *Term { return v.(*StructV).f[1].(*Term) }
	clock := func(e *Exec) *Term {
		if e.clock == nil {
			e.clock = e.ctx.Const(64, 0)
		}
		return e.clock
	}
	intrinsics["time.Now"] = func(e *Exec, fn *ssa.Function, args []Value, caller *Frame) (Value, *GoPanic) {
		// the wall clock moves on between any two looks at it: every call returns an instant one millisecond
		// after the previous one (one representative schedule; a symbolic advance makes the millisecond
		// truncation of durations undecidable in practice). Code that mixes the wall clock with a driver's own
		// virtual clock therefore sees a discrepancy, as it does natively.
		e.clock = e.ctx.BinBV(OpAdd, clock(e), e.ctx.Const(64, 1000000))
		return mkTime(e, e.clock), nil
	}
	intrinsics["(time.Time).Add"] = func(e *Exec, fn *ssa.Function, args []Value, caller *Frame) (Value, *GoPanic) {
		return mkTime(e, e.ctx.BinBV(OpAdd, timeNs(args[0]), args[1].(*Term))), nil
	}
	intrinsics["(time.Time).Sub"] = func(e *Exec, fn *ssa.Function, args []Value, caller *Frame) (Value, *GoPanic) {
		return e.ctx.BinBV(OpSub, timeNs(args[0]), timeNs(args[1])), nil
	}
	intrinsics["time.Since"] = func(e *Exec, fn *ssa.Function, args []Value, caller *Frame) (Value, *GoPanic) {
		return e.ctx.BinBV(OpSub, clock(e), timeNs(args[0])), nil
	}
	intrinsics["(time.Time).Before"] = func(e *Exec, fn *ssa.Function, args []Value, caller *Frame) (Value, *GoPanic) {
		return e.ctx.Cmp(OpSlt, timeNs(args[0]), timeNs(args[1])), nil
	}
	intrinsics["(time.Time).After"] = func(e *Exec, fn *ssa.Function, args []Value, caller *Frame) (Value, *GoPanic) {
		return e.ctx.Cmp(OpSlt, timeNs(args[1]), timeNs(args[0])), nil
	}
	intrinsics["(time.Time).Equal"] = func(e *Exec, fn *ssa.Function, args []Value, caller *Frame) (Value, *GoPanic) {
		return e.ctx.Eq(timeNs(args[0]), timeNs(args[1])), nil
	}
	intrinsics["(time.Time).IsZero"] = func(e *Exec, fn *ssa.Function, args []Value, caller *Frame) (Value, *GoPanic) {
		return e.ctx.Eq(timeNs(args[0]), e.ctx.Const(64, 0)), nil
	}
	intrinsics["time.Sleep"] = func(e *Exec, fn *ssa.Function, args []Value, caller *Frame) (Value, *GoPanic) {
		d := args[0].(*Term)
		pos := e.ctx.Cmp(OpSlt, e.ctx.Const(64, 0), d)
		e.clock = e.ctx.BinBV(OpAdd, clock(e), e.ctx.Ite(pos, d, e.ctx.Const(64, 0)))
		e.sleeps++
		return nil, nil
	}
	reg("ClockNs", func(e *Exec, fn *ssa.Function, args []Value, caller *Frame) (Value, *GoPanic) {
		return clock(e), nil
	})

	// ---- math/big (only NewInt(x).Bytes(), as used by smf.MetaTempo) ----
	intrinsics["math/big.NewInt"] = func(e *Exec, fn *ssa.Function, args []Value, caller *Frame) (Value, *GoPanic) {
		obj := e.newObject(&StructV{f: []Value{args[0]}}, nil, "big.Int")
		return Ptr{obj: obj}, nil
	}
	intrinsics["(*math/big.Int).Bytes"] = func(e *Exec, fn *ssa.Function, args []Value, caller *Frame) (Value, *GoPanic) {
		x := args[0].(Ptr).obj.v.(*StructV).f[0].(*Term)
		c := e.ctx
		if x.IsConst() {
			v := x.val
			var bs []*Term
			for v > 0 {
				bs = append([]*Term{c.Const(8, v&0xFF)}, bs...)
				v >>= 8
			}
			return e.bytesToSlice(bs), nil
		}
		if x.sort.K == KInt {
			// minimal big-endian bytes of a non-negative value: case split on the byte length
			if e.branch(c.RCmp(OpRLt, x, c.IntConst(0)), nil) {
				e.unsupported("big.Int.Bytes of a negative value")
			}
			n := 0
			lim := big.NewInt(1)
			for ; n < 8; n++ {
				if e.branch(c.RCmp(OpRLt, x, c.IntConstBig(lim)), nil) {
					break
				}
				lim = new(big.Int).Lsh(lim, 8)
			}
			// the n bytes are fresh variables y_i in 0..255 with x = sum y_i * 256^(n-1-i) (linear, no div/mod)
			bs := make([]*Term, n)
			var sum *Term = c.IntConst(0)
			for i := 0; i < n; i++ {
				e.realN++
				y := c.Var(fmt.Sprintf("byte!%d", e.realN), IntSort)
				e.assumeQuiet(c.RCmpRaw(OpRLe, c.IntConst(0), y))
				e.assumeQuiet(c.RCmpRaw(OpRLe, y, c.IntConst(255)))
				c.setInfo(y, big.NewInt(0), big.NewInt(255), 0)
				bs[i] = y
				sum = c.RBin(OpRAdd, c.RBin(OpRMul, sum, c.IntConst(256)), y)
			}
			e.assumeQuiet(c.Eq(x, sum))
			return e.bytesToSlice(bs), nil
		}
		// bit-vector mode: case split on the byte length
		w := x.sort.W
		n := 0
		for ; n < w/8; n++ {
			if e.branch(c.Cmp(OpUlt, x, c.Const(w, uint64(1)<<uint(8*n))), nil) {
				break
			}
		}
		bs := make([]*Term, n)
		for i := 0; i < n; i++ {
			bs[n-1-i] = c.Extract(x, 8*i+7, 8*i)
		}
		return e.bytesToSlice(bs), nil
	}

	// ---- math ----
	math1 := func(name string, f func(float64) float64, mode string) {
		intrinsics["math."+name] = func(e *Exec, fn *ssa.Function, args []Value, caller *Frame) (Value, *GoPanic) {
			switch x := args[0].(type) {
			case FloatV:
				return FloatV{f(x.f)}, nil
			case RealV:
				if mode != "" {
					return e.realRound(x.t, mode), nil
				}
			case OpaqueF:
				return x, nil
			}
			e.unsupported("math.%s on %T", name, args[0])
			return nil, nil
		}
	}
	math1("Round", math.Round, "round")
	math1("Floor", math.Floor, "floor")
	math1("Ceil", math.Ceil, "ceil")
	math1("Trunc", math.Trunc, "trunc")
	intrinsics["math.Abs"] = func(e *Exec, fn *ssa.Function, args []Value, caller *Frame) (Value, *GoPanic) {
		switch x := args[0].(type) {
		case FloatV:
			return FloatV{math.Abs(x.f)}, nil
		case RealV:
			// exact: one fork on the sign
			c := e.ctx
			if e.branch(c.RCmp(OpRLe, c.RealConstInt(0), x.t), nil) {
				return x, nil
			}
			return RealV{c.RBin(OpRSub, c.RealConstInt(0), x.t)}, nil
		case OpaqueF:
			return x, nil
		}
		e.unsupported("math.Abs on %T", args[0])
		return nil, nil
	}
	math1("Sqrt", math.Sqrt, "")
	math1("Log2", math.Log2, "")
	intrinsics["math.Pow"] = func(e *Exec, fn *ssa.Function, args []Value, caller *Frame) (Value, *GoPanic) {
		x, ok1 := args[0].(FloatV)
		y, ok2 := args[1].(FloatV)
		if !ok1 || !ok2 {
			e.unsupported("math.Pow on symbolic values")
		}
		return FloatV{math.Pow(x.f, y.f)}, nil
	}
	intrinsics["math.Float64bits"] = func(e *Exec, fn *ssa.Function, args []Value, caller *Frame) (Value, *GoPanic) {
		x, ok := args[0].(FloatV)
		if !ok {
			e.unsupported("math.Float64bits on symbolic value")
		}
		return e.ctx.Const(64, math.Float64bits(x.f)), nil
	}
	intrinsics["math.Float64frombits"] = func(e *Exec, fn *ssa.Function, args []Value, caller *Frame) (Value, *GoPanic) {
		t := args[0].(*Term)
		if !t.IsConst() {
			e.unsupported("math.Float64frombits on symbolic value")
		}
		return FloatV{math.Float64frombits(t.val)}, nil
	}
	intrinsics["math/bits.Len"] = func(e *Exec, fn *ssa.Function, args []Value, caller *Frame) (Value, *GoPanic) {
		t := args[0].(*Term)
		if t.IsConst() {
			n := 0
			for v := t.val; v != 0; v >>= 1 {
				n++
			}
			return e.intTerm(int64(n)), nil
		}
		// symbolic: ite chain
		acc := e.ctx.Const(64, 0)
		for k := 1; k <= t.sort.W; k++ {
			ge := e.ctx.Cmp(OpUle, e.ctx.Const(t.sort.W, uint64(1)<<uint(k-1)), t)
			acc = e.ctx.Ite(ge, e.ctx.Const(64, uint64(k)), acc)
		}
		return acc, nil
	}
	intrinsics["math/bits.Len64"] = intrinsics["math/bits.Len"]
	intrinsics["math/bits.Len32"] = intrinsics["math/bits.Len"]
	intrinsics["math/bits.Len16"] = intrinsics["math/bits.Len"]
	intrinsics["math/bits.Len8"] = intrinsics["math/bits.Len"]

	// ---- internal/bytealg (assembly in reality) ----
	intrinsics["internal/bytealg.IndexByte"] = func(e *Exec, fn *ssa.Function, args []Value, caller *Frame) (Value, *GoPanic) {
		s := args[0].(SliceV)
		return e.indexByte(e.sliceBytes(s), args[1].(*Term)), nil
	}
	intrinsics["internal/bytealg.IndexByteString"] = func(e *Exec, fn *ssa.Function, args []Value, caller *Frame) (Value, *GoPanic) {
		return e.indexByte(e.strBytes(args[0].(StrV)), args[1].(*Term)), nil
	}
	intrinsics["internal/bytealg.Equal"] = func(e *Exec, fn *ssa.Function, args []Value, caller *Frame) (Value, *GoPanic) {
		a, b := args[0].(SliceV), args[1].(SliceV)
		return e.strEq(e.mkStr(e.sliceBytes(a)), e.mkStr(e.sliceBytes(b))), nil
	}
	intrinsics["bytes.Equal"] = intrinsics["internal/bytealg.Equal"]
	intrinsics["internal/bytealg.MakeNoZero"] = func(e *Exec, fn *ssa.Function, args []Value, caller *Frame) (Value, *GoPanic) {
		n := e.concretizeInt(args[0].(*Term), types.Typ[types.Int], "make")
		return e.makeSlice(types.Typ[types.Uint8], int(n), int(n)), nil
	}
	intrinsics["strings.ToLower"] = func(e *Exec, fn *ssa.Function, args []Value, caller *Frame) (Value, *GoPanic) {
		return StrV{s: strings.ToLower(concStr(e, args[0], "strings.ToLower argument"))}, nil
	}
	intrinsics["strings.ToUpper"] = func(e *Exec, fn *ssa.Function, args []Value, caller *Frame) (Value, *GoPanic) {
		return StrV{s: strings.ToUpper(concStr(e, args[0], "strings.ToUpper argument"))}, nil
	}
	intrinsics["strings.TrimSpace"] = func(e *Exec, fn *ssa.Function, args []Value, caller *Frame) (Value, *GoPanic) {
		return StrV{s: strings.TrimSpace(concStr(e, args[0], "strings.TrimSpace argument"))}, nil
	}
	intrinsics["(*strings.Builder).WriteString"] = nil
	delete(intrinsics, "(*strings.Builder).WriteString")
}

func (e *Exec) indexByte(bs []*Term, c *Term) Value {
	acc := e.ctx.Const(64, ^uint64(0))
	for i := len(bs) - 1; i >= 0; i-- {
		acc = e.ctx.Ite(e.ctx.Eq(bs[i], c), e.ctx.Const(64, uint64(i)), acc)
	}
	return acc
}

// newError builds an *errors.errorString value as an error interface.
func (e *Exec) newError(msg string) Value {
	obj := e.newObject(&StructV{f: []Value{StrV{s: msg}}}, e.eng.errorStringT, "error")
	return IfaceV{typ: types.NewPointer(e.eng.errorStringT), val: Ptr{obj: obj}}
}

// evalStringers calls String()/Error() on variadic interface arguments so that the accessor code they
// contain is still executed (panics inside String methods are real panics).
func (e *Exec) evalStringers(v Value, caller *Frame) *GoPanic {
	s, ok := v.(SliceV)
	if !ok || s.base.obj == nil {
		return nil
	}
	for i := 0; i < s.len; i++ {
		iv, ok := e.sliceGet(s, i).(IfaceV)
		if !ok || iv.typ == nil {
			continue
		}
		for _, name := range []string{"Error", "String"} {
			m := e.eng.lookupMethod(iv.typ, nil, name)
			if m == nil || m.Signature.Params().Len() != 0 || m.Signature.Results().Len() != 1 {
				continue
			}
			if p, isPtr := iv.val.(Ptr); isPtr && p.obj == nil {
				break
			}
			_, p := e.callFunction(m, []Value{iv.val}, nil, caller, nil)
			if p != nil {
				return p
			}
			break
		}
	}
	return nil
}

func (e *Exec) deepEq(a, b Value, depth int) *Term {
	c := e.ctx
	if depth > 20 {
		e.unsupported("DeepEqual too deep")
	}
	switch x := a.(type) {
	case IfaceV:
		y, ok := b.(IfaceV)
		if !ok {
			return c.False
		}
		if x.typ == nil || y.typ == nil {
			return c.Bool(x.typ == nil && y.typ == nil)
		}
		if !types.Identical(x.typ, y.typ) {
			return c.False
		}
		return e.deepEq(x.val, y.val, depth+1)
	case SliceV:
		y, ok := b.(SliceV)
		if !ok {
			return c.False
		}
		if (x.base.obj == nil) != (y.base.obj == nil) {
			return c.False
		}
		if x.len != y.len {
			return c.False
		}
		r := c.True
		for i := 0; i < x.len; i++ {
			r = c.BAnd(r, e.deepEq(e.sliceGet(x, i), e.sliceGet(y, i), depth+1))
		}
		return r
	case *StructV:
		y, ok := b.(*StructV)
		if !ok || len(x.f) != len(y.f) {
			return c.False
		}
		r := c.True
		for i := range x.f {
			r = c.BAnd(r, e.deepEq(x.f[i], y.f[i], depth+1))
		}
		return r
	case *ArrayV:
		y, ok := b.(*ArrayV)
		if !ok || len(x.e) != len(y.e) {
			return c.False
		}
		r := c.True
		for i := range x.e {
			r = c.BAnd(r, e.deepEq(x.e[i], y.e[i], depth+1))
		}
		return r
	case Ptr:
		y, ok := b.(Ptr)
		if !ok {
			return c.False
		}
		if x.obj == nil || y.obj == nil {
			return c.Bool(x.obj == nil && y.obj == nil)
		}
		if samePtr(x, y) {
			return c.True
		}
		return e.deepEq(e.load(x), e.load(y), depth+1)
	case MapV:
		e.unsupported("DeepEqual on maps")
	}
	return e.valueEq(a, b)
}

func (e *Exec) arithRangeVar(t *Term, w int, signed bool) {
	var ty types.Type
	switch {
	case w == 8 && signed:
		ty = types.Typ[types.Int8]
	case w == 8:
		ty = types.Typ[types.Uint8]
	case w == 16 && signed:
		ty = types.Typ[types.Int16]
	case w == 16:
		ty = types.Typ[types.Uint16]
	case w == 32 && signed:
		ty = types.Typ[types.Int32]
	case w == 32:
		ty = types.Typ[types.Uint32]
	case signed:
		ty = types.Typ[types.Int64]
	default:
		ty = types.Typ[types.Uint64]
	}
	lo, hi := typeRange(e, ty)
	e.assumeQuiet(e.ctx.RCmpRaw(OpRLe, e.ctx.IntConstBig(lo), t))
	e.assumeQuiet(e.ctx.RCmpRaw(OpRLe, t, e.ctx.IntConstBig(hi)))
	e.ctx.setInfo(t, lo, hi, 0)
}

// summary replaces a callee by a contract (assume/guarantee: the contract is what another check establishes).
//
//	"strictly-monotone-nonneg": f(x) for the last integer argument x: f(x) >= 0, x1 < x2 => f(x1) < f(x2),
//	x1 == x2 => f(x1) == f(x2), f bounded by 2^40 (no overflow in the callers' arithmetic).
func (e *Exec) summary(kind string, fn *ssa.Function, args []Value) (Value, *GoPanic) {
	c := e.ctx
	switch kind {
	case "strictly-monotone-nonneg":
		x := args[len(args)-1].(*Term)
		e.realN++
		y := c.Var(fmt.Sprintf("summary!%s!%d", fn.Name(), e.realN), BV(64))
		e.assumeQuiet(c.Cmp(OpSle, c.Const(64, 0), y))
		e.assumeQuiet(c.Cmp(OpSlt, y, c.Const(64, 1<<40)))
		e.assumeQuiet(c.Ite(c.Eq(x, c.Const(64, 0)), c.Eq(y, c.Const(64, 0)), c.Cmp(OpSlt, c.Const(64, 0), y)))
		for _, p := range e.summaryCalls[fn.String()] {
			e.assumeQuiet(c.Ite(c.Eq(p[0], x), c.Eq(p[1], y), c.Ite(c.Cmp(OpSlt, p[0], x), c.Cmp(OpSlt, p[1], y), c.Cmp(OpSlt, y, p[1]))))
		}
		if e.summaryCalls == nil {
			e.summaryCalls = map[string][][2]*Term{}
		}
		e.summaryCalls[fn.String()] = append(e.summaryCalls[fn.String()], [2]*Term{x, y})
		return y, nil
	}
	if strings.HasPrefix(kind, "linear:") {
		// f(x) = k*x exactly (e.g. SMF.TimeAt for 120 BPM, resolution 1000, no tempo events: 500 microseconds per tick)
		var k uint64
		fmt.Sscanf(kind[len("linear:"):], "%d", &k)
		x := args[len(args)-1].(*Term)
		return c.BinBV(OpMul, x, c.Const(x.sort.W, k)), nil
	}
	if strings.HasPrefix(kind, "div-to-u32:") {
		// f(x) = uint32(x / k) exactly (e.g. MetricTicks(500).Ticks(120, d) = d in whole milliseconds: 1 tick per ms)
		var k uint64
		fmt.Sscanf(kind[len("div-to-u32:"):], "%d", &k)
		x := args[len(args)-1].(*Term)
		return c.Extract(c.BinBV(OpSDiv, x, c.Const(x.sort.W, k)), 31, 0), nil
	}
	e.unsupported("unknown summary kind %q", kind)
	return nil, nil
}
