package main

// Runtime values of the symbolic interpreter. Scalars are *Term; everything else has concrete shape.

import (
	"fmt"
	"go/types"
	"sort"
	"strings"

	"golang.org/x/tools/go/ssa"
)

type Value interface{}

// FloatV is a concrete float64/float32 (BV mode has no symbolic floats).
type FloatV struct{ f float64 }

// OpaqueF is a float whose value the bit-vector mode does not track (result of float64(symbolic int)).
type OpaqueF struct{}

// RealV is a symbolic float64 in envelope mode: value is a Real-sorted term.
type RealV struct{ t *Term }

// ComplexV: not supported beyond constants.

// StrV is a string with concrete length. sym == nil ⇒ fully concrete (s).
type StrV struct {
	s   string
	sym []*Term
}

func (s StrV) Len() int {
	if s.sym != nil {
		return len(s.sym)
	}
	return len(s.s)
}

type StructV struct{ f []Value }
type ArrayV struct{ e []Value }
type TupleV []Value

// Object is one allocation (Alloc, make, global, composite backing store).
type Object struct {
	id   int
	v    Value
	typ  types.Type // element type stored
	name string
}

// Ptr points into an object: path elements are int (field or concrete index) or *Term (symbolic array index).
type Ptr struct {
	obj  *Object
	path []interface{}
}

func (p Ptr) IsNil() bool { return p.obj == nil }

// SliceV: a window [off, off+len) (cap = off+cap) of the ArrayV reached by base.
type SliceV struct {
	base Ptr // pointer to an ArrayV; nil slice ⇒ base.obj == nil
	off  int
	len  int
	cap  int
}

type IfaceV struct {
	typ types.Type // dynamic type; nil ⇒ nil interface
	val Value
}

type ClosureV struct {
	fn   *ssa.Function
	bind []Value
}

// BoundV: bound method closure or builtin reference.
type BuiltinV struct{ b *ssa.Builtin }

type MapV struct{ m *MapObj } // nil map ⇒ m == nil

type MapObj struct {
	id   int
	keys []Value
	vals []Value
	idx  map[string]int // concrete-key index
	del  []bool
	kt   types.Type
	vt   types.Type
}

// RangeIter is the state of a range over map/string.
type RangeIter struct {
	m    *MapObj
	keys []Value
	vals []Value
	str  StrV
	pos  int
	isS  bool
}

// ChanV is an opaque channel handle (no channel semantics).
type ChanV struct{ id int }

// ---------- helpers ----------

func isNilValue(v Value) bool {
	switch x := v.(type) {
	case nil:
		return true
	case Ptr:
		return x.obj == nil
	case SliceV:
		return x.base.obj == nil
	case IfaceV:
		return x.typ == nil
	case MapV:
		return x.m == nil
	case *ClosureV:
		return x == nil
	}
	return false
}

// concreteKey returns a canonical string for a fully concrete comparable value, or "" , false.
func concreteKey(v Value) (string, bool) {
	switch x := v.(type) {
	case *Term:
		if x.IsConst() {
			return fmt.Sprintf("i%d", x.val), true
		}
		if x.op == OpRConst {
			return "r" + x.rat.RatString(), true
		}
		return "", false
	case StrV:
		if x.sym == nil {
			return "s" + x.s, true
		}
		for _, b := range x.sym {
			if !b.IsConst() {
				return "", false
			}
		}
		bs := make([]byte, len(x.sym))
		for i, b := range x.sym {
			bs[i] = byte(b.val)
		}
		return "s" + string(bs), true
	case FloatV:
		return fmt.Sprintf("f%v", x.f), true
	case *StructV:
		var sb strings.Builder
		sb.WriteString("{")
		for _, f := range x.f {
			k, ok := concreteKey(f)
			if !ok {
				return "", false
			}
			sb.WriteString(k)
			sb.WriteString(";")
		}
		sb.WriteString("}")
		return sb.String(), true
	case *ArrayV:
		var sb strings.Builder
		sb.WriteString("[")
		for _, f := range x.e {
			k, ok := concreteKey(f)
			if !ok {
				return "", false
			}
			sb.WriteString(k)
			sb.WriteString(";")
		}
		sb.WriteString("]")
		return sb.String(), true
	case Ptr:
		if x.obj == nil {
			return "p0", true
		}
		var sb strings.Builder
		fmt.Fprintf(&sb, "p%d", x.obj.id)
		for _, e := range x.path {
			i, ok := e.(int)
			if !ok {
				return "", false
			}
			fmt.Fprintf(&sb, ".%d", i)
		}
		return sb.String(), true
	case IfaceV:
		if x.typ == nil {
			return "n", true
		}
		k, ok := concreteKey(x.val)
		if !ok {
			return "", false
		}
		return "I" + x.typ.String() + ":" + k, true
	}
	return "", false
}

// copyValue makes a deep copy of value-semantics aggregates (struct, array); references are shared.
func copyValue(v Value) Value {
	switch x := v.(type) {
	case *StructV:
		n := &StructV{f: make([]Value, len(x.f))}
		for i, f := range x.f {
			n.f[i] = copyValue(f)
		}
		return n
	case *ArrayV:
		n := &ArrayV{e: make([]Value, len(x.e))}
		for i, f := range x.e {
			n.e[i] = copyValue(f)
		}
		return n
	case TupleV:
		n := make(TupleV, len(x))
		for i, f := range x {
			n[i] = copyValue(f)
		}
		return n
	}
	return v
}

// heapCloner deep-copies a heap (objects and maps keep their identity relation).
type heapCloner struct {
	objs map[*Object]*Object
	maps map[*MapObj]*MapObj
}

func newHeapCloner() *heapCloner {
	return &heapCloner{objs: map[*Object]*Object{}, maps: map[*MapObj]*MapObj{}}
}

func (h *heapCloner) obj(o *Object) *Object {
	if o == nil {
		return nil
	}
	if n, ok := h.objs[o]; ok {
		return n
	}
	n := &Object{id: o.id, typ: o.typ, name: o.name}
	h.objs[o] = n
	n.v = h.val(o.v)
	return n
}

func (h *heapCloner) mapo(m *MapObj) *MapObj {
	if m == nil {
		return nil
	}
	if n, ok := h.maps[m]; ok {
		return n
	}
	n := &MapObj{id: m.id, kt: m.kt, vt: m.vt, idx: map[string]int{}}
	h.maps[m] = n
	n.keys = make([]Value, len(m.keys))
	n.vals = make([]Value, len(m.vals))
	n.del = append([]bool(nil), m.del...)
	for i := range m.keys {
		n.keys[i] = h.val(m.keys[i])
		n.vals[i] = h.val(m.vals[i])
	}
	for k, v := range m.idx {
		n.idx[k] = v
	}
	return n
}

func (h *heapCloner) val(v Value) Value {
	switch x := v.(type) {
	case *StructV:
		n := &StructV{f: make([]Value, len(x.f))}
		for i, f := range x.f {
			n.f[i] = h.val(f)
		}
		return n
	case *ArrayV:
		n := &ArrayV{e: make([]Value, len(x.e))}
		for i, f := range x.e {
			n.e[i] = h.val(f)
		}
		return n
	case TupleV:
		n := make(TupleV, len(x))
		for i, f := range x {
			n[i] = h.val(f)
		}
		return n
	case Ptr:
		return Ptr{obj: h.obj(x.obj), path: x.path}
	case SliceV:
		return SliceV{base: Ptr{obj: h.obj(x.base.obj), path: x.base.path}, off: x.off, len: x.len, cap: x.cap}
	case IfaceV:
		return IfaceV{typ: x.typ, val: h.val(x.val)}
	case *ClosureV:
		if x == nil {
			return x
		}
		n := &ClosureV{fn: x.fn, bind: make([]Value, len(x.bind))}
		for i, b := range x.bind {
			n.bind[i] = h.val(b)
		}
		return n
	case MapV:
		return MapV{m: h.mapo(x.m)}
	}
	return v
}

// sortedKeys is used for deterministic iteration over Go maps in the engine itself.
func sortedKeys(m map[string]int) []string {
	ks := make([]string, 0, len(m))
	for k := range m {
		ks = append(ks, k)
	}
	sort.Strings(ks)
	return ks
}
