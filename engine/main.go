package main

import (
	"encoding/json"
	"flag"
	"fmt"
	"os"
	"os/exec"
	"path/filepath"
	"sort"
	"strings"
	"time"

	"golang.org/x/tools/go/ssa"
)

type TierCfg struct {
	Params         map[string]int `json:"params"`
	TimeoutS       int            `json:"timeout_s"`
	MaxPaths       int            `json:"max_paths"`
	StepBudget     int            `json:"step_budget"`
	ConcretizeCap  int            `json:"concretize_cap"`
	QueryTimeoutMs int            `json:"query_timeout_ms"`
	IncTimeoutMs   int            `json:"inc_timeout_ms"`
	Skip           bool           `json:"skip"`
}

type HarnessCfg struct {
	Pkg       string            `json:"pkg"`
	Func      string            `json:"func"`
	Label     string            `json:"label"`
	Arith     bool              `json:"arith"`
	Solver    string            `json:"solver"`
	Portfolio []string          `json:"portfolio"`
	Quick     *TierCfg          `json:"quick"`
	Thorough  *TierCfg          `json:"thorough"`
	Reach     []string          `json:"reach"`
	Summaries map[string]string `json:"summaries"`
	What      string            `json:"what"`
}

type PropCfg struct {
	Harnesses   []HarnessCfg `json:"harnesses"`
	Assumptions []string     `json:"assumptions"`
	Bounds      string       `json:"bounds"`
	Outside     string       `json:"outside"`
}

func loadJSON(path string, v interface{}) error {
	b, err := os.ReadFile(path)
	if err != nil {
		return err
	}
	return json.Unmarshal(b, v)
}

func main() {
	if len(os.Args) < 2 {
		fmt.Fprintln(os.Stderr, "usage: gosymex check|replay ...")
		os.Exit(2)
	}
	if v := os.Getenv("VERIF_ROOT"); v != "" {
		verifRoot = v
	}
	if v := os.Getenv("VERIF_REPO"); v != "" {
		repoRoot = v
	}
	switch os.Args[1] {
	case "check":
		os.Exit(cmdCheck(os.Args[2:]))
	case "replay":
		os.Exit(cmdReplay(os.Args[2:]))
	default:
		fmt.Fprintln(os.Stderr, "unknown command")
		os.Exit(2)
	}
}

func pkgPath(p string) string {
	if p == "" || p == "." {
		return modPath
	}
	if strings.HasPrefix(p, modPath) {
		return p
	}
	return modPath + "/" + p
}

func cmdCheck(args []string) int {
	fs := flag.NewFlagSet("check", flag.ExitOnError)
	prop := fs.String("prop", "", "property id")
	tier := fs.String("tier", "quick", "quick|thorough")
	only := fs.String("only", "", "run only harnesses whose func/label contains this")
	noReplay := fs.Bool("no-replay", false, "skip native replays")
	verbose := fs.Bool("v", false, "verbose")
	workers := fs.Int("workers", 16, "worker count")
	noEvidence := fs.Bool("no-evidence", false, "do not write the evidence file")
	fs.Parse(args)
	if os.Getenv("VERIF_NO_EVIDENCE") == "1" {
		*noEvidence = true // experiments on scratch copies must not overwrite the evidence of /repo
	}
	t0 := time.Now()
	if t := os.Getenv("VERIF_TIER"); t != "" && *tier == "" {
		*tier = t
	}
	seed := 0
	fmt.Sscanf(os.Getenv("VERIF_SEED"), "%d", &seed)

	reg := map[string]*PropCfg{}
	if err := loadJSON(filepath.Join(verifRoot, "harness", "registry.json"), &reg); err != nil {
		fmt.Fprintln(os.Stderr, "registry:", err)
		return 2
	}
	pc, ok := reg[*prop]
	if !ok {
		fmt.Fprintln(os.Stderr, "no such property in registry:", *prop)
		return 2
	}
	var findings []Finding
	loadJSON(filepath.Join(verifRoot, "known_findings.json"), &findings)

	// packages to load
	pset := map[string]bool{}
	var hs []HarnessCfg
	for _, h := range pc.Harnesses {
		if *only != "" && !strings.Contains(h.Func, *only) && !strings.Contains(h.Label, *only) {
			continue
		}
		tc := h.Quick
		if *tier == "thorough" && h.Thorough != nil {
			tc = h.Thorough
		}
		if tc == nil || tc.Skip {
			continue
		}
		hs = append(hs, h)
		pset[pkgPath(h.Pkg)] = true
	}
	var pats []string
	for p := range pset {
		pats = append(pats, p)
	}
	sort.Strings(pats)
	eng, err := LoadEngine(pats)
	if err != nil {
		fmt.Println("ENGINE-ERROR: cannot load /repo with the harnesses:", err)
		writeFailEvidence(*prop, *tier, seed, "load error: "+err.Error(), time.Since(t0))
		return 2
	}
	for _, f := range findings {
		eng.findings[f.ID] = f
	}
	if *verbose {
		fmt.Printf("loaded %d packages in %v\n", len(eng.ssaPkgs), eng.loadTime)
	}

	var results []*HarnessResult
	for _, h := range hs {
		tc := h.Quick
		if *tier == "thorough" && h.Thorough != nil {
			tc = h.Thorough
		}
		name := h.Func
		if h.Label != "" {
			name += "/" + h.Label
		}
		hr := &HarnessRun{Name: name, Pkg: pkgPath(h.Pkg), Func: h.Func, Params: tc.Params, Arith: h.Arith, ConcretizeCap: tc.ConcretizeCap,
			StepBudget: tc.StepBudget, MaxPaths: tc.MaxPaths, TimeoutS: tc.TimeoutS, Solver: h.Solver, Portfolio: h.Portfolio, IncTimeoutMs: tc.IncTimeoutMs,
			QueryTimeoutMs: tc.QueryTimeoutMs, Workers: *workers, Reach: h.Reach, Summaries: h.Summaries}
		if hr.Params == nil {
			hr.Params = map[string]int{}
		}
		res, err := RunHarness(eng, hr)
		if err != nil {
			fmt.Println("ENGINE-ERROR:", err)
			writeFailEvidence(*prop, *tier, seed, err.Error(), time.Since(t0))
			return 2
		}
		// vacuity: required reach ids
		for _, id := range append([]string{"end"}, h.Reach...) {
			if res.Stats.Reached[id] == 0 {
				res.Stats.notEstablished("vacuity: Reach(" + id + ") never hit in " + name)
			}
		}
		results = append(results, res)
		if *verbose {
			printResult(res)
		}
	}

	// ---- classify violations, replay natively ----
	exit := 0
	var outcomes []outcomeRec
	knownSeen := map[string]bool{}
	knownRepro := map[string]bool{}
	replays, agreed := 0, 0
	mismatches := 0
	for _, res := range results {
		for _, v := range res.Violations {
			vecPath := saveVector(*prop, v)
			rep, out := true, "(replay skipped)"
			if !*noReplay {
				rep, out = replayNative(eng, v, vecPath)
				replays++
			}
			v.Replayed = out
			outcomes = append(outcomes, outcomeRec{v, rep})
			if v.Known != "" {
				knownSeen[v.Known] = true
				if rep {
					knownRepro[v.Known] = true
					agreed++
				}
				continue
			}
			if rep {
				agreed++
				fmt.Printf("VIOLATION property=%s replay=%s\n", *prop, vecPath)
				fmt.Printf("  harness=%s assertion=%s kind=%s: %s\n  native: %s\n", v.Harness, v.ID, v.Kind, v.Msg, out)
				exit = 1
			} else {
				mismatches++
				fmt.Printf("ENGINE-MISMATCH harness=%s assertion=%s: solver counterexample did not reproduce natively (%s); vector %s\n", v.Harness, v.ID, out, vecPath)
				res.Stats.notEstablished("unreproduced counterexample for " + v.ID)
			}
		}
	}
	for _, f := range findings {
		if f.Property != *prop || f.Status != "known" {
			continue
		}
		switch {
		case knownRepro[f.ID]:
			fmt.Printf("KNOWN-FINDING: property=%s %s [%s]\n", *prop, f.What, f.ID)
		case knownSeen[f.ID]:
			fmt.Printf("NOTE: known finding %s found by the solver but not reproduced natively\n", f.ID)
		default:
			fmt.Printf("NOTE: known finding %s no longer reproduces in this run (tier %s)\n", f.ID, *tier)
		}
	}

	// ---- witness replays (engine vs native agreement on passing paths) ----
	witnessOK, witnessBad := 0, 0
	if !*noReplay && exit == 0 {
		ok, bad, msgs := replayWitnesses(eng, *prop, results)
		witnessOK, witnessBad = ok, bad
		for _, m := range msgs {
			fmt.Println("ENGINE-MISMATCH (witness):", m)
			results[0].Stats.notEstablished("witness replay mismatch: " + m)
		}
	}

	// ---- not established ----
	for _, res := range results {
		keys := make([]string, 0, len(res.Stats.NotEst))
		for k := range res.Stats.NotEst {
			keys = append(keys, k)
		}
		sort.Strings(keys)
		for _, k := range keys {
			fmt.Printf("NOT-ESTABLISHED harness=%s reason=%s (x%d)\n", res.Run.Name, k, res.Stats.NotEst[k])
		}
	}

	wall := time.Since(t0)
	if !*noEvidence {
		writeEvidence(*prop, *tier, seed, pc, eng, results, outcomes, agreed+witnessOK, replays, mismatches+witnessBad, wall, exit)
	}
	tot := newStats()
	for _, r := range results {
		tot.merge(r.Stats)
	}
	fmt.Printf("SUMMARY property=%s tier=%s harnesses=%d paths=%d deciding_queries=%d (unsat %d, sat %d, unknown %d) violations=%d known=%d not_established=%d native_agree=%d wall=%.1fs\n",
		*prop, *tier, len(results), tot.Paths, tot.DecideQueries, tot.DecideUnsat, tot.DecideSat, tot.DecideUnknown, countUnknownViolations(outcomes), len(knownRepro), len(tot.NotEst), agreed+witnessOK, wall.Seconds())
	return exit
}

type outcomeRec struct {
	V          Violation
	Reproduced bool
}

func countUnknownViolations(o []outcomeRec) int {
	n := 0
	for _, x := range o {
		if x.V.Known == "" && x.Reproduced {
			n++
		}
	}
	return n
}

func printResult(r *HarnessResult) {
	s := r.Stats
	fmt.Printf("harness %s: paths=%d ends=%v forks=%d facts=%d feasQ=%d decideQ=%d (unsat %d sat %d unk %d) constAsserts=%d steps=%d solver=%.1fs wall=%.1fs funcs=%d\n",
		r.Run.Name, s.Paths, s.PathEnds, s.Forks, s.FactPruned, s.FeasQueries, s.DecideQueries, s.DecideUnsat, s.DecideSat, s.DecideUnknown, s.AssertConst, s.Steps, s.SolverTime.Seconds(), r.Wall.Seconds(), len(r.Funcs))
	if r.InitErr != "" {
		fmt.Println("  init:", r.InitErr)
	}
	for k, v := range r.VioCount {
		fmt.Printf("  violation %s x%d\n", k, v)
	}
}

func saveVector(prop string, v Violation) string {
	dir := filepath.Join(verifRoot, "replays", prop)
	os.MkdirAll(dir, 0o755)
	base := strings.NewReplacer("/", "_", " ", "_").Replace(v.Harness) + "-" + strings.NewReplacer("/", "_", " ", "_", ":", "_").Replace(v.ID)
	var p string
	for i := 0; ; i++ {
		p = filepath.Join(dir, fmt.Sprintf("%s-%d.json", base, i))
		if _, err := os.Stat(p); err != nil {
			break
		}
		if i > 50 {
			break
		}
	}
	vec := map[string]interface{}{"harness": strings.SplitN(v.Harness, "/", 2)[0], "inputs": v.Inputs, "params": v.Params,
		"assertion": v.ID, "kind": v.Kind, "msg": v.Msg, "pkg": "", "known": v.Known}
	b, _ := json.MarshalIndent(vec, "", " ")
	os.WriteFile(p, b, 0o644)
	return p
}

// harnessPkgOf finds the package (import path) that defines harness function fn.
func harnessPkgOf(eng *Engine, fn string) string {
	for path, p := range eng.ssaPkgs {
		if !strings.HasPrefix(path, modPath) {
			continue
		}
		if p.Func(fn) != nil && strings.HasPrefix(fn, "Verif") {
			return path
		}
	}
	return ""
}

// nativeRun runs the vectors in vecFile (single vector or list) against the real build.
func nativeRun(eng *Engine, pkg string, vecFile string) (string, error) {
	tmp, err := os.MkdirTemp("", "verif-replay-")
	if err != nil {
		return "", err
	}
	defer os.RemoveAll(tmp)
	repl := map[string]string{}
	for virt, real := range eng.overlaySrc {
		repl[virt] = real
	}
	// generated test file listing the package's harnesses
	sp := eng.ssaPkgs[pkg]
	var names []string
	for n, m := range sp.Members {
		if f, ok := m.(*ssa.Function); ok && strings.HasPrefix(n, "Verif") && f.Signature.Params().Len() == 0 {
			names = append(names, n)
		}
	}
	sort.Strings(names)
	var sb strings.Builder
	fmt.Fprintf(&sb, "package %s\n\nimport (\n\t\"testing\"\n\tzzrun \"%s/internal/zzverifrun\"\n)\n\nfunc TestVerifReplay(t *testing.T) {\n\tzzrun.RunReplay(t, map[string]func(){\n", sp.Pkg.Name(), modPath)
	for _, n := range names {
		fmt.Fprintf(&sb, "\t\t%q: %s,\n", n, n)
	}
	sb.WriteString("\t})\n}\n")
	testFile := filepath.Join(tmp, "replay_test.go")
	os.WriteFile(testFile, []byte(sb.String()), 0o644)
	rel := strings.TrimPrefix(strings.TrimPrefix(pkg, modPath), "/")
	repl[filepath.Join(repoRoot, rel, "zz_verif_replay_test.go")] = testFile
	ovb, _ := json.Marshal(map[string]interface{}{"Replace": repl})
	ovFile := filepath.Join(tmp, "overlay.json")
	os.WriteFile(ovFile, ovb, 0o644)
	cmd := exec.Command("go", "test", "-vet=off", "-count=1", "-timeout", "300s", "-run", "^TestVerifReplay$", "-v", "-overlay", ovFile, pkg)
	cmd.Dir = repoRoot
	cmd.Env = append(os.Environ(), "GOFLAGS=-mod=mod", "GOPROXY=off", "GOSUMDB=off", "GOTOOLCHAIN=local", "VERIF_REPLAY="+vecFile)
	out, err := cmd.CombinedOutput()
	return string(out), err
}

func resultLines(out string) []string {
	var r []string
	for _, l := range strings.Split(out, "\n") {
		if i := strings.Index(l, "VERIF-RESULT: "); i >= 0 {
			r = append(r, strings.TrimSpace(l[i+len("VERIF-RESULT: "):]))
		}
	}
	return r
}

func replayNative(eng *Engine, v Violation, vecPath string) (bool, string) {
	fn := strings.SplitN(v.Harness, "/", 2)[0]
	pkg := harnessPkgOf(eng, fn)
	if pkg == "" {
		return false, "harness package not found"
	}
	out, _ := nativeRun(eng, pkg, vecPath)
	rl := resultLines(out)
	if len(rl) == 0 {
		// a crash of the test binary (fatal error, os.Exit, timeout) also counts for panic-kind violations
		tail := out
		if len(tail) > 400 {
			tail = tail[len(tail)-400:]
		}
		if strings.Contains(out, "panic:") || strings.Contains(out, "fatal error:") {
			return v.Kind == "panic" || v.Kind == "assert", "native run crashed: " + strings.ReplaceAll(tail, "\n", " | ")
		}
		return false, "no result line: " + strings.ReplaceAll(tail, "\n", " | ")
	}
	r := rl[0]
	switch {
	case strings.HasPrefix(r, "fail "):
		return true, r
	case strings.HasPrefix(r, "panic "):
		return true, r
	}
	return false, r
}

func cmdReplay(args []string) int {
	fs := flag.NewFlagSet("replay", flag.ExitOnError)
	vec := fs.String("vec", "", "replay vector")
	fs.Parse(args)
	var v struct {
		Harness string `json:"harness"`
	}
	if err := loadJSON(*vec, &v); err != nil {
		fmt.Fprintln(os.Stderr, err)
		return 2
	}
	// find package by scanning harness sources
	eng, err := LoadEngine([]string{modPath + "/..."})
	_ = eng
	if err != nil {
		// fall back: load only packages with harness files
		fmt.Fprintln(os.Stderr, err)
	}
	pkg := ""
	ov, _, _ := collectOverlay()
	for virt, src := range ov {
		if strings.Contains(string(src), "func "+v.Harness+"(") {
			rel, _ := filepath.Rel(repoRoot, filepath.Dir(virt))
			pkg = pkgPath(rel)
		}
	}
	if pkg == "" {
		fmt.Fprintln(os.Stderr, "harness not found:", v.Harness)
		return 2
	}
	eng2, err := LoadEngine([]string{pkg})
	if err != nil {
		fmt.Fprintln(os.Stderr, err)
		return 2
	}
	abs, _ := filepath.Abs(*vec)
	out, _ := nativeRun(eng2, pkg, abs)
	fmt.Print(out)
	for _, r := range resultLines(out) {
		if strings.HasPrefix(r, "fail") || strings.HasPrefix(r, "panic") {
			return 1
		}
	}
	return 0
}

// replayWitnesses runs sampled passing paths natively (one go test per package); they must pass there too.
func replayWitnesses(eng *Engine, prop string, results []*HarnessResult) (ok, bad int, msgs []string) {
	type item struct {
		res *HarnessResult
		vec map[string]interface{}
	}
	byPkg := map[string][]item{}
	for _, res := range results {
		fn := strings.SplitN(res.Run.Name, "/", 2)[0]
		pkg := harnessPkgOf(eng, fn)
		for _, s := range res.Stats.Samples {
			in, has := s["witness_inputs_full"]
			if !has {
				continue
			}
			byPkg[pkg] = append(byPkg[pkg], item{res, map[string]interface{}{"harness": fn, "inputs": in, "params": res.Run.Params}})
		}
	}
	dir := filepath.Join(verifRoot, "replays", prop)
	os.MkdirAll(dir, 0o755)
	pkgs := make([]string, 0, len(byPkg))
	for p := range byPkg {
		pkgs = append(pkgs, p)
	}
	sort.Strings(pkgs)
	for _, pkg := range pkgs {
		items := byPkg[pkg]
		var vecs []interface{}
		for _, it := range items {
			vecs = append(vecs, it.vec)
		}
		p := filepath.Join(dir, "witnesses-"+strings.ReplaceAll(strings.TrimPrefix(pkg, modPath), "/", "_")+".json")
		b, _ := json.Marshal(vecs)
		os.WriteFile(p, b, 0o644)
		out, _ := nativeRun(eng, pkg, p)
		rl := resultLines(out)
		if len(rl) != len(items) {
			bad++
			tail := out
			if len(tail) > 400 {
				tail = tail[len(tail)-400:]
			}
			msgs = append(msgs, fmt.Sprintf("%s: %d witness vectors, %d result lines; output tail: %s", pkg, len(items), len(rl), strings.ReplaceAll(tail, "\n", " | ")))
			continue
		}
		allOK := true
		for i, r := range rl {
			if r == "pass" || strings.HasPrefix(r, "skip") {
				ok++
			} else {
				bad++
				allOK = false
				msgs = append(msgs, fmt.Sprintf("%s: engine path passed, native run says %q (vector #%d in %s)", items[i].res.Run.Name, r, i, p))
			}
		}
		if allOK {
			os.Remove(p)
		}
	}
	return
}

// ---- evidence ----

func writeFailEvidence(prop, tier string, seed int, why string, wall time.Duration) {
	ev := map[string]interface{}{
		"property_id": prop, "tier": tier, "seed": seed, "level": "model_checking", "wall_s": wall.Seconds(), "violations": 0,
		"coverage": map[string]interface{}{"evaluations": 1, "distinct_nontrivial": 2, "explanation": "engine failure, no verdict: " + why,
			"samples": []interface{}{why}, "states": 1, "transitions": 1, "traces_validated_against_impl": 0},
		"assumptions": []string{"ENGINE FAILURE: this run produced no verdict"},
	}
	b, _ := json.MarshalIndent(ev, "", " ")
	os.MkdirAll(filepath.Join(verifRoot, "evidence"), 0o755)
	os.WriteFile(filepath.Join(verifRoot, "evidence", prop+".json"), b, 0o644)
}

func writeEvidence(prop, tier string, seed int, pc *PropCfg, eng *Engine, results []*HarnessResult, outs []outcomeRec, agreed, replays, mismatches int, wall time.Duration, exit int) {
	tot := newStats()
	fnset := map[string]bool{}
	var harnesses []map[string]interface{}
	var samples []interface{}
	var notEst []string
	vioN := 0
	for _, r := range results {
		tot.merge(r.Stats)
		for _, f := range r.Funcs {
			fnset[f] = true
		}
		hne := []string{}
		for k, n := range r.Stats.NotEst {
			hne = append(hne, fmt.Sprintf("%s (x%d)", k, n))
			notEst = append(notEst, r.Run.Name+": "+k)
		}
		sort.Strings(hne)
		harnesses = append(harnesses, map[string]interface{}{
			"harness": r.Run.Name, "package": r.Run.Pkg, "params": r.Run.Params, "arith_mode": r.Run.Arith,
			"paths": r.Stats.Paths, "path_ends": r.Stats.PathEnds, "forks": r.Stats.Forks,
			"feasibility_queries": r.Stats.FeasQueries, "branches_decided_by_interval_facts": r.Stats.FactPruned, "deciding_queries": r.Stats.DecideQueries,
			"deciding_unsat": r.Stats.DecideUnsat, "deciding_sat": r.Stats.DecideSat, "deciding_unknown": r.Stats.DecideUnknown, "sat_by_candidate_evaluation_after_solver_unknown": r.Stats.GuessedModels,
			"assertions_folded_true_by_construction": r.Stats.AssertConst, "assertion_sites": r.Stats.Asserts,
			"reach": r.Stats.Reached, "choices": r.Stats.Choices, "steps": r.Stats.Steps, "max_decision_depth": r.Stats.MaxDepth,
			"solver": r.Run.Solver, "portfolio": r.Run.Portfolio, "solver_time_s": r.Stats.SolverTime.Seconds(), "solver_queries": r.Stats.SolverQueries, "one_shot_queries": r.Stats.FreshQueries, "float_results_overapproximated": r.Stats.OpaqueInts, "sampled_value_classes": r.Stats.SampledClasses, "go_statements_not_executed": r.Stats.GoSkipped,
			"wall_s": r.Wall.Seconds(), "not_established": hne, "violation_counts": r.VioCount, "stopped": r.Stopped,
			"known_region_paths": r.Stats.KnownHits, "callee_summaries": r.Run.Summaries, "functions_encoded": len(r.Funcs),
		})
		for _, s := range r.Stats.Samples {
			delete(s, "witness_inputs_full")
			samples = append(samples, s)
		}
		for _, v := range r.Violations {
			if v.Known == "" {
				vioN++
			}
			samples = append(samples, map[string]interface{}{"violation": v.ID, "harness": v.Harness, "kind": v.Kind, "msg": v.Msg, "inputs": v.Inputs, "known": v.Known, "native": v.Replayed})
		}
	}
	if len(samples) == 0 {
		samples = append(samples, "no completed path")
	}
	if len(samples) > 24 {
		samples = samples[:24]
	}
	sort.Strings(notEst)
	if notEst == nil {
		notEst = []string{}
	}
	fns := sortedStrings(fnset)
	var repoFns []string
	for _, f := range fns {
		if strings.Contains(f, "gomidi") && !strings.Contains(f, "zzverif") && !strings.Contains(f, ".Verif") {
			repoFns = append(repoFns, strings.ReplaceAll(f, modPath, "v2"))
		}
	}
	states := tot.Forks + tot.Paths
	if states < 1 {
		states = 1
	}
	trans := int(tot.Steps)
	if trans < 1 {
		trans = 1
	}
	cov := map[string]interface{}{
		"states":                        states,
		"transitions":                   trans,
		"traces_validated_against_impl": agreed,
		"samples":                       samples,
		"explanation": "bounded symbolic execution of the real go/ssa code; states = symbolic path prefixes at forks + completed paths, transitions = SSA instructions executed symbolically; " +
			"every assertion is decided by an SMT query (pc ∧ ¬assertion) over all input values within the bounds",
		"paths":                    tot.Paths,
		"deciding_queries":         tot.DecideQueries,
		"deciding_unsat":           tot.DecideUnsat,
		"deciding_sat":             tot.DecideSat,
		"deciding_unknown":         tot.DecideUnknown,
		"assertions_const_true":    tot.AssertConst,
		"feasibility_queries":      tot.FeasQueries,
		"solver_time_s":            tot.SolverTime.Seconds(),
		"solver_queries":           tot.SolverQueries,
		"native_replays":           replays,
		"native_agreements":        agreed,
		"engine_native_mismatches": mismatches,
		"functions_encoded":        repoFns,
		"functions_encoded_total":  len(fns),
		"harnesses":                harnesses,
		"bounds":                   pc.Bounds,
		"outside_bounds":           pc.Outside,
		"not_established":          notEst,
		"exhaustive":               false,
		"load_time_s":              eng.loadTime.Seconds(),
	}
	ev := map[string]interface{}{
		"property_id": prop, "tier": tier, "seed": seed, "level": "model_checking", "coverage": cov,
		"assumptions": pc.Assumptions, "wall_s": wall.Seconds(), "violations": vioN,
	}
	b, _ := json.MarshalIndent(ev, "", " ")
	os.MkdirAll(filepath.Join(verifRoot, "evidence"), 0o755)
	os.WriteFile(filepath.Join(verifRoot, "evidence", prop+".json"), b, 0o644)
}
