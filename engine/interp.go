package main

// Path-forking symbolic interpreter over go/ssa.

import (
	"fmt"
	"go/constant"
	"go/token"
	"go/types"
	"math"
	"strings"

	"golang.org/x/tools/go/ssa"
)

// ---- path termination ----

type pathEnd struct {
	kind string // "done", "infeasible", "unsupported", "budget", "internal"
	msg  string
}

type GoPanic struct {
	val     Value // interface value passed to panic
	msg     string
	runtime bool
	where   string
}

type PoisonV struct{ why string }

type deferred struct {
	fn   Value
	args []Value
	inv  *types.Func // invoke-mode method
}

type Frame struct {
	fn        *ssa.Function
	locals    map[ssa.Value]Value
	defers    []deferred
	prev      *ssa.BasicBlock
	panicking *GoPanic
	recovered bool
	deferOf   *Frame
	caller    *Frame
}

func (e *Exec) unsupported(format string, a ...interface{}) {
	panic(pathEnd{"unsupported", fmt.Sprintf(format, a...)})
}

// ---- type helpers ----

func (e *Exec) width(t types.Type) int {
	switch b := t.Underlying().(type) {
	case *types.Basic:
		switch b.Kind() {
		case types.Int8, types.Uint8:
			return 8
		case types.Int16, types.Uint16:
			return 16
		case types.Int32, types.Uint32:
			return 32
		case types.Int64, types.Uint64, types.Int, types.Uint, types.Uintptr, types.UntypedInt, types.UntypedRune:
			return 64
		}
	}
	return 0
}

func isSigned(t types.Type) bool {
	if b, ok := t.Underlying().(*types.Basic); ok {
		return b.Info()&types.IsInteger != 0 && b.Info()&types.IsUnsigned == 0
	}
	return false
}

func isInteger(t types.Type) bool {
	if b, ok := t.Underlying().(*types.Basic); ok {
		return b.Info()&types.IsInteger != 0
	}
	return false
}

func isFloat(t types.Type) bool {
	if b, ok := t.Underlying().(*types.Basic); ok {
		return b.Info()&types.IsFloat != 0
	}
	return false
}

func isString(t types.Type) bool {
	if b, ok := t.Underlying().(*types.Basic); ok {
		return b.Info()&types.IsString != 0
	}
	return false
}

func isBool(t types.Type) bool {
	if b, ok := t.Underlying().(*types.Basic); ok {
		return b.Info()&types.IsBoolean != 0
	}
	return false
}

func (e *Exec) zero(t types.Type) Value {
	switch u := t.Underlying().(type) {
	case *types.Basic:
		switch {
		case u.Info()&types.IsBoolean != 0:
			return e.ctx.False
		case u.Info()&types.IsInteger != 0:
			if e.arith {
				return e.ctx.IntConst(0)
			}
			return e.ctx.Const(e.width(t), 0)
		case u.Info()&types.IsFloat != 0:
			return FloatV{0}
		case u.Info()&types.IsString != 0:
			return StrV{}
		case u.Kind() == types.UnsafePointer:
			return Ptr{}
		case u.Kind() == types.UntypedNil:
			return nil
		}
	case *types.Pointer:
		return Ptr{}
	case *types.Slice:
		return SliceV{}
	case *types.Map:
		return MapV{}
	case *types.Signature:
		return (*ClosureV)(nil)
	case *types.Interface:
		return IfaceV{}
	case *types.Chan:
		return nil
	case *types.Struct:
		s := &StructV{f: make([]Value, u.NumFields())}
		for i := range s.f {
			s.f[i] = e.zero(u.Field(i).Type())
		}
		return s
	case *types.Array:
		a := &ArrayV{e: make([]Value, u.Len())}
		if u.Len() > 0 {
			z := e.zero(u.Elem())
			_, scalar := z.(*Term)
			for i := range a.e {
				if scalar {
					a.e[i] = z
				} else {
					a.e[i] = e.zero(u.Elem())
				}
			}
		}
		return a
	case *types.Tuple:
		tv := make(TupleV, u.Len())
		for i := range tv {
			tv[i] = e.zero(u.At(i).Type())
		}
		return tv
	}
	e.unsupported("zero value of %s", t)
	return nil
}

func (e *Exec) constValue(c *ssa.Const) Value {
	t := c.Type()
	if c.Value == nil {
		return e.zero(t)
	}
	switch u := t.Underlying().(type) {
	case *types.Basic:
		switch {
		case u.Info()&types.IsBoolean != 0:
			return e.ctx.Bool(constant.BoolVal(c.Value))
		case u.Info()&types.IsInteger != 0:
			var v uint64
			if i, ok := constant.Int64Val(constant.ToInt(c.Value)); ok {
				v = uint64(i)
			} else if ui, ok := constant.Uint64Val(constant.ToInt(c.Value)); ok {
				v = ui
			}
			if e.arith {
				if isSigned(t) {
					return e.ctx.IntConst(int64(v))
				}
				return e.ctx.IntConstU(v)
			}
			return e.ctx.Const(e.width(t), v)
		case u.Info()&types.IsFloat != 0:
			f, _ := constant.Float64Val(constant.ToFloat(c.Value))
			if u.Kind() == types.Float32 {
				f = float64(float32(f))
			}
			return FloatV{f}
		case u.Info()&types.IsString != 0:
			return StrV{s: constant.StringVal(c.Value)}
		}
	}
	e.unsupported("constant %v of type %s", c.Value, t)
	return nil
}

// ---- memory ----

func (e *Exec) newObject(v Value, t types.Type, name string) *Object {
	e.objN++
	return &Object{id: e.objN, v: v, typ: t, name: name}
}

// navigate returns a pointer to the Value slot addressed by a fully concrete path.
func navigate(root *Value, path []interface{}) *Value {
	cur := root
	for _, el := range path {
		i := el.(int)
		switch x := (*cur).(type) {
		case *StructV:
			cur = &x.f[i]
		case *ArrayV:
			cur = &x.e[i]
		default:
			panic(pathEnd{"internal", fmt.Sprintf("navigate into %T", *cur)})
		}
	}
	return cur
}

func symIndexPos(path []interface{}) int {
	for i, el := range path {
		if _, ok := el.(*Term); ok {
			return i
		}
	}
	return -1
}

func (e *Exec) load(p Ptr) Value {
	if p.obj == nil {
		panic(pathEnd{"internal", "load through nil pointer (missing nil check)"})
	}
	k := symIndexPos(p.path)
	if k < 0 {
		v := *navigate(&p.obj.v, p.path)
		if pv, ok := v.(PoisonV); ok && !e.initMode {
			e.unsupported("read of a value the engine could not initialise: %s (%s)", p.obj.name, pv.why)
		}
		return copyValue(v)
	}
	arr := (*navigate(&p.obj.v, p.path[:k])).(*ArrayV)
	idx := p.path[k].(*Term)
	rest := p.path[k+1:]
	var acc Value
	ok := true
	for i := len(arr.e) - 1; i >= 0; i-- {
		q := Ptr{obj: p.obj, path: append(append(append([]interface{}{}, p.path[:k]...), i), rest...)}
		vi := e.load(q)
		if acc == nil {
			acc = vi
			continue
		}
		acc, ok = e.iteValue(e.ctx.Eq(idx, e.ctx.Const(idx.sort.W, uint64(i))), vi, acc)
		if !ok {
			break
		}
	}
	if ok {
		return acc
	}
	// not mergeable: fork on the index value
	c := int(e.concretize(idx, "index"))
	q := Ptr{obj: p.obj, path: append(append(append([]interface{}{}, p.path[:k]...), c), rest...)}
	return e.load(q)
}

func (e *Exec) store(p Ptr, v Value) {
	if p.obj == nil {
		panic(pathEnd{"internal", "store through nil pointer (missing nil check)"})
	}
	k := symIndexPos(p.path)
	if k < 0 {
		*navigate(&p.obj.v, p.path) = copyValue(v)
		return
	}
	arr := (*navigate(&p.obj.v, p.path[:k])).(*ArrayV)
	idx := p.path[k].(*Term)
	rest := p.path[k+1:]
	// try ite-update of every cell
	news := make([]Value, len(arr.e))
	ok := true
	for i := range arr.e {
		q := Ptr{obj: p.obj, path: append(append(append([]interface{}{}, p.path[:k]...), i), rest...)}
		old := e.load(q)
		news[i], ok = e.iteValue(e.ctx.Eq(idx, e.ctx.Const(idx.sort.W, uint64(i))), v, old)
		if !ok {
			break
		}
	}
	if ok {
		for i := range arr.e {
			q := Ptr{obj: p.obj, path: append(append(append([]interface{}{}, p.path[:k]...), i), rest...)}
			e.store(q, news[i])
		}
		return
	}
	c := int(e.concretize(idx, "index"))
	q := Ptr{obj: p.obj, path: append(append(append([]interface{}{}, p.path[:k]...), c), rest...)}
	e.store(q, v)
}

func samePtr(a, b Ptr) bool {
	if a.obj != b.obj || len(a.path) != len(b.path) {
		return false
	}
	for i := range a.path {
		if a.path[i] != b.path[i] {
			return false
		}
	}
	return true
}

func (e *Exec) iteValue(c *Term, a, b Value) (Value, bool) {
	if c.IsTrue() {
		return a, true
	}
	if c.IsFalse() {
		return b, true
	}
	switch x := a.(type) {
	case *Term:
		y, ok := b.(*Term)
		if !ok || x.sort != y.sort {
			return nil, false
		}
		return e.ctx.Ite(c, x, y), true
	case FloatV:
		if y, ok := b.(FloatV); ok && (x.f == y.f || (x.f != x.f && y.f != y.f)) {
			return a, true
		}
		return OpaqueF{}, true
	case OpaqueF:
		return OpaqueF{}, true
	case StrV:
		y, ok := b.(StrV)
		if !ok || x.Len() != y.Len() {
			return nil, false
		}
		if x.sym == nil && y.sym == nil && x.s == y.s {
			return a, true
		}
		xb, yb := e.strBytes(x), e.strBytes(y)
		r := make([]*Term, len(xb))
		for i := range xb {
			r[i] = e.ctx.Ite(c, xb[i], yb[i])
		}
		return StrV{sym: r}, true
	case *StructV:
		y, ok := b.(*StructV)
		if !ok || len(x.f) != len(y.f) {
			return nil, false
		}
		r := &StructV{f: make([]Value, len(x.f))}
		for i := range x.f {
			var ok2 bool
			if r.f[i], ok2 = e.iteValue(c, x.f[i], y.f[i]); !ok2 {
				return nil, false
			}
		}
		return r, true
	case *ArrayV:
		y, ok := b.(*ArrayV)
		if !ok || len(x.e) != len(y.e) {
			return nil, false
		}
		r := &ArrayV{e: make([]Value, len(x.e))}
		for i := range x.e {
			var ok2 bool
			if r.e[i], ok2 = e.iteValue(c, x.e[i], y.e[i]); !ok2 {
				return nil, false
			}
		}
		return r, true
	case Ptr:
		if y, ok := b.(Ptr); ok && samePtr(x, y) {
			return a, true
		}
	case SliceV:
		if y, ok := b.(SliceV); ok && samePtr(x.base, y.base) && x.off == y.off && x.len == y.len && x.cap == y.cap {
			return a, true
		}
	case IfaceV:
		y, ok := b.(IfaceV)
		if !ok {
			return nil, false
		}
		if x.typ == nil && y.typ == nil {
			return a, true
		}
		if x.typ != nil && y.typ != nil && types.Identical(x.typ, y.typ) {
			v, ok2 := e.iteValue(c, x.val, y.val)
			if ok2 {
				return IfaceV{typ: x.typ, val: v}, true
			}
		}
	case MapV:
		if y, ok := b.(MapV); ok && x.m == y.m {
			return a, true
		}
	case *ClosureV:
		if y, ok := b.(*ClosureV); ok && x == y {
			return a, true
		}
	case nil:
		if b == nil {
			return nil, true
		}
	}
	return nil, false
}

func (e *Exec) strBytes(s StrV) []*Term {
	if s.sym != nil {
		return s.sym
	}
	r := make([]*Term, len(s.s))
	for i := 0; i < len(s.s); i++ {
		r[i] = e.ctx.Const(8, uint64(s.s[i]))
	}
	return r
}

func (e *Exec) mkStr(bs []*Term) StrV {
	allc := true
	for _, b := range bs {
		if !b.IsConst() {
			allc = false
			break
		}
	}
	if allc {
		raw := make([]byte, len(bs))
		for i, b := range bs {
			raw[i] = byte(b.val)
		}
		return StrV{s: string(raw)}
	}
	if bs == nil {
		bs = []*Term{}
	}
	return StrV{sym: bs}
}

// slice element access
func (e *Exec) sliceElemPtr(s SliceV, i interface{}) Ptr {
	var el interface{}
	switch x := i.(type) {
	case int:
		el = s.off + x
	case *Term:
		if s.off == 0 {
			el = x
		} else {
			el = e.ctx.BinBV(OpAdd, x, e.ctx.Const(x.sort.W, uint64(s.off)))
		}
	}
	return Ptr{obj: s.base.obj, path: append(append([]interface{}{}, s.base.path...), el)}
}

func (e *Exec) sliceGet(s SliceV, i int) Value { return e.load(e.sliceElemPtr(s, i)) }
func (e *Exec) sliceSet(s SliceV, i int, v Value) {
	e.store(e.sliceElemPtr(s, i), v)
}

func (e *Exec) makeSlice(elem types.Type, n, c int) SliceV {
	arr := &ArrayV{e: make([]Value, c)}
	if c > 0 {
		z := e.zero(elem)
		_, scalar := z.(*Term)
		for i := range arr.e {
			if scalar {
				arr.e[i] = z
			} else {
				arr.e[i] = e.zero(elem)
			}
		}
	}
	e.allocBytes += int64(c) * e.eng.sizes.Sizeof(elem)
	e.checkAlloc(int64(c) * e.eng.sizes.Sizeof(elem))
	obj := e.newObject(arr, types.NewArray(elem, int64(c)), "make")
	return SliceV{base: Ptr{obj: obj}, off: 0, len: n, cap: c}
}

func (e *Exec) bytesToSlice(bs []*Term) SliceV {
	arr := &ArrayV{e: make([]Value, len(bs))}
	for i, b := range bs {
		arr.e[i] = b
	}
	obj := e.newObject(arr, types.NewArray(types.Typ[types.Uint8], int64(len(bs))), "bytes")
	return SliceV{base: Ptr{obj: obj}, off: 0, len: len(bs), cap: len(bs)}
}

func (e *Exec) sliceBytes(s SliceV) []*Term {
	r := make([]*Term, s.len)
	for i := 0; i < s.len; i++ {
		r[i] = e.sliceGet(s, i).(*Term)
	}
	return r
}

// ---- function execution ----

func (e *Exec) get(fr *Frame, v ssa.Value) Value {
	switch x := v.(type) {
	case *ssa.Const:
		return e.constValue(x)
	case *ssa.Global:
		return Ptr{obj: e.global(x)}
	case *ssa.Function:
		return &ClosureV{fn: x}
	case *ssa.Builtin:
		return BuiltinV{x}
	}
	r, ok := fr.locals[v]
	if !ok {
		panic(pathEnd{"internal", fmt.Sprintf("no value for %s in %s", v.Name(), fr.fn)})
	}
	return r
}

func (e *Exec) global(g *ssa.Global) *Object {
	if o, ok := e.globals[g]; ok {
		return o
	}
	// first touch of a global of a package whose init was not run
	t := g.Type().(*types.Pointer).Elem()
	var v Value
	if g.Pkg != nil && e.eng.initRun[g.Pkg] {
		v = e.zero(t)
	} else {
		v = PoisonV{why: "package " + g.Pkg.Pkg.Path() + " not initialised by the engine"}
	}
	o := e.newObject(v, t, g.String())
	e.globals[g] = o
	return o
}

func (e *Exec) callFunction(fn *ssa.Function, args []Value, bind []Value, caller *Frame, deferOf *Frame) (Value, *GoPanic) {
	if intr, ok := intrinsics[fn.String()]; ok {
		return intr(e, fn, args, caller)
	}
	if e.h != nil && e.h.Summaries != nil && !e.initMode {
		if kind, ok := e.h.Summaries[fn.String()]; ok {
			return e.summary(kind, fn, args)
		}
	}
	if e.initMode && caller != nil && fn.Name() == "init" && fn.Synthetic != "" {
		return nil, nil // nested package initialisers are run explicitly in dependency order
	}
	if fn.Blocks == nil {
		if e.initMode {
			return PoisonV{why: "external function " + fn.String()}, nil
		}
		e.unsupported("call of function without body: %s", fn.String())
	}
	if fn.Pkg != nil && e.eng.denyPkg[fn.Pkg.Pkg.Path()] {
		if e.initMode {
			return PoisonV{why: "denied package function " + fn.String()}, nil
		}
		e.unsupported("call into unmodelled package: %s", fn.String())
	}
	e.depth++
	if e.depth > 400 {
		panic(pathEnd{"budget", "call depth exceeded in " + fn.String()})
	}
	defer func() { e.depth-- }()
	e.noteFn(fn)
	fr := &Frame{fn: fn, locals: make(map[ssa.Value]Value, 16), deferOf: deferOf, caller: caller}
	for i, p := range fn.Params {
		fr.locals[p] = args[i]
	}
	for i, fv := range fn.FreeVars {
		fr.locals[fv] = bind[i]
	}
	return e.runFrame(fr)
}

func (e *Exec) runFrame(fr *Frame) (ret Value, gp *GoPanic) {
	block := fr.fn.Blocks[0]
	for {
		var next *ssa.BasicBlock
		var pnc *GoPanic
		returned := false
		for _, ins := range block.Instrs {
			e.steps++
			if e.steps > e.stepBudget {
				panic(pathEnd{"budget", fmt.Sprintf("step budget %d exceeded in %s", e.stepBudget, fr.fn)})
			}
			switch x := ins.(type) {
			case *ssa.If:
				c := e.get(fr, x.Cond)
				ct, ok := c.(*Term)
				if !ok {
					if _, isP := c.(PoisonV); isP {
						panic(pathEnd{"unsupported", "branch on uninitialisable value in " + fr.fn.String()})
					}
					panic(pathEnd{"internal", "If on non-term"})
				}
				if e.branch(ct, ins) {
					next = block.Succs[0]
				} else {
					next = block.Succs[1]
				}
			case *ssa.Jump:
				next = block.Succs[0]
			case *ssa.Return:
				switch len(x.Results) {
				case 0:
					ret = nil
				case 1:
					ret = e.get(fr, x.Results[0])
				default:
					tv := make(TupleV, len(x.Results))
					for i, r := range x.Results {
						tv[i] = e.get(fr, r)
					}
					ret = tv
				}
				returned = true
			case *ssa.Panic:
				v := e.get(fr, x.X)
				pnc = &GoPanic{val: v, msg: e.describePanic(v), where: e.posOf(ins)}
			case *ssa.RunDefers:
				pnc = e.runDefers(fr)
			default:
				pnc = e.exec(fr, ins)
			}
			if pnc != nil || next != nil || returned {
				break
			}
		}
		if pnc != nil {
			// panic: run deferred calls, possibly recover
			fr.panicking = pnc
			if p2 := e.runDefers(fr); p2 != nil {
				return nil, p2
			}
			if fr.recovered {
				fr.recovered = false
				fr.panicking = nil
				if fr.fn.Recover != nil {
					block = fr.fn.Recover
					fr.prev = nil
					continue
				}
				return e.zeroResults(fr.fn), nil
			}
			return nil, fr.panicking
		}
		if returned {
			return ret, nil
		}
		fr.prev = block
		block = next
	}
}

func (e *Exec) zeroResults(fn *ssa.Function) Value {
	res := fn.Signature.Results()
	switch res.Len() {
	case 0:
		return nil
	case 1:
		return e.zero(res.At(0).Type())
	}
	return e.zero(res)
}

func (e *Exec) runDefers(fr *Frame) *GoPanic {
	for len(fr.defers) > 0 {
		d := fr.defers[len(fr.defers)-1]
		fr.defers = fr.defers[:len(fr.defers)-1]
		_, p := e.callValue(d.fn, d.args, d.inv, fr, fr)
		if p != nil {
			fr.panicking = p
			fr.recovered = false
		}
	}
	if fr.panicking != nil && !fr.recovered {
		return fr.panicking
	}
	return nil
}

func (e *Exec) posOf(ins ssa.Instruction) string {
	p := ins.Pos()
	if !p.IsValid() {
		if ins.Parent() != nil {
			return ins.Parent().String()
		}
		return "?"
	}
	ps := e.eng.prog.Fset.Position(p)
	return fmt.Sprintf("%s:%d", ps.Filename, ps.Line)
}

func (e *Exec) describePanic(v Value) string {
	iv, ok := v.(IfaceV)
	if !ok || iv.typ == nil {
		return "panic(nil)"
	}
	switch x := iv.val.(type) {
	case StrV:
		if x.sym == nil {
			return x.s
		}
		return "<symbolic string>"
	case Ptr:
		// error values: try errors.errorString / fmt stub
		if x.obj != nil {
			if sv, ok := x.obj.v.(*StructV); ok && len(sv.f) > 0 {
				if s, ok := sv.f[0].(StrV); ok && s.sym == nil {
					return s.s
				}
			}
		}
	}
	return "panic of type " + iv.typ.String()
}

func (e *Exec) runtimePanic(ins ssa.Instruction, msg string) *GoPanic {
	return &GoPanic{val: IfaceV{typ: e.eng.runtimeErrType, val: StrV{s: "runtime error: " + msg}}, msg: "runtime error: " + msg, runtime: true, where: e.posOf(ins)}
}

// callValue calls a function value (closure, builtin, bound) or an interface method.
func (e *Exec) callValue(f Value, args []Value, inv *types.Func, caller *Frame, deferOf *Frame) (Value, *GoPanic) {
	if inv != nil {
		recv := args[0]
		iv, ok := recv.(IfaceV)
		if !ok {
			panic(pathEnd{"internal", fmt.Sprintf("invoke on %T", recv)})
		}
		if iv.typ == nil {
			return nil, &GoPanic{msg: "runtime error: invalid memory address or nil pointer dereference (nil interface method call)", runtime: true,
				val: IfaceV{typ: e.eng.runtimeErrType, val: StrV{s: "nil interface call"}}}
		}
		fn := e.eng.lookupMethod(iv.typ, inv.Pkg(), inv.Name())
		if fn == nil {
			e.unsupported("no method %s on %s", inv.Name(), iv.typ)
		}
		nargs := append([]Value{iv.val}, args[1:]...)
		return e.callFunction(fn, nargs, nil, caller, deferOf)
	}
	switch x := f.(type) {
	case *ClosureV:
		if x == nil {
			return nil, &GoPanic{msg: "runtime error: invalid memory address or nil pointer dereference (nil func call)", runtime: true,
				val: IfaceV{typ: e.eng.runtimeErrType, val: StrV{s: "nil func call"}}}
		}
		return e.callFunction(x.fn, args, x.bind, caller, deferOf)
	case BuiltinV:
		return e.callBuiltin(x.b, args, caller, deferOf, nil)
	case PoisonV:
		if e.initMode {
			return x, nil
		}
		e.unsupported("call of uninitialisable function value: %s", x.why)
	}
	panic(pathEnd{"internal", fmt.Sprintf("call of %T", f)})
}

func (e *Exec) prepareCall(fr *Frame, c *ssa.CallCommon) (f Value, args []Value, inv *types.Func) {
	if c.IsInvoke() {
		args = make([]Value, 0, len(c.Args)+1)
		args = append(args, e.get(fr, c.Value))
		for _, a := range c.Args {
			args = append(args, e.get(fr, a))
		}
		return nil, args, c.Method
	}
	f = e.get(fr, c.Value)
	args = make([]Value, len(c.Args))
	for i, a := range c.Args {
		args[i] = e.get(fr, a)
	}
	return f, args, nil
}

// exec executes one non-control instruction; returns a Go panic if the instruction panics.
func (e *Exec) exec(fr *Frame, ins ssa.Instruction) *GoPanic {
	if e.initMode {
		// lenient: unsupported operations poison their result
		return e.execLenient(fr, ins)
	}
	return e.exec1(fr, ins)
}

func (e *Exec) execLenient(fr *Frame, ins ssa.Instruction) (gp *GoPanic) {
	defer func() {
		if r := recover(); r != nil {
			pe, ok := r.(pathEnd)
			if !ok || (pe.kind != "unsupported" && pe.kind != "internal") {
				panic(r)
			}
			if v, ok := ins.(ssa.Value); ok {
				fr.locals[v] = PoisonV{why: pe.msg}
			}
			if st, ok := ins.(*ssa.Store); ok {
				// store poison at the target if resolvable
				if p, ok := fr.locals[st.Addr].(Ptr); ok && p.obj != nil && symIndexPos(p.path) < 0 {
					*navigate(&p.obj.v, p.path) = PoisonV{why: pe.msg}
				} else if g, ok := st.Addr.(*ssa.Global); ok {
					e.global(g).v = PoisonV{why: pe.msg}
				}
			}
			gp = nil
		}
	}()
	// any poisoned operand poisons the result
	var ops [8]*ssa.Value
	for _, op := range ins.Operands(ops[:0]) {
		if *op == nil {
			continue
		}
		if lv, ok := fr.locals[*op]; ok {
			if pv, isP := lv.(PoisonV); isP {
				if _, isStore := ins.(*ssa.Store); isStore {
					panic(pathEnd{"unsupported", pv.why})
				}
				if v, ok := ins.(ssa.Value); ok {
					fr.locals[v] = pv
					return nil
				}
				if _, isCall := ins.(*ssa.Call); !isCall {
					return nil
				}
			}
		}
	}
	return e.exec1(fr, ins)
}

func (e *Exec) exec1(fr *Frame, ins ssa.Instruction) *GoPanic {
	switch x := ins.(type) {
	case *ssa.DebugRef:
		return nil
	case *ssa.Alloc:
		t := x.Type().(*types.Pointer).Elem()
		obj := e.newObject(e.zero(t), t, x.Comment)
		fr.locals[x] = Ptr{obj: obj}
	case *ssa.Phi:
		for i, pred := range x.Block().Preds {
			if pred == fr.prev {
				fr.locals[x] = e.get(fr, x.Edges[i])
				return nil
			}
		}
		panic(pathEnd{"internal", "phi: no matching predecessor"})
	case *ssa.Store:
		p := e.get(fr, x.Addr).(Ptr)
		if p.obj == nil {
			return e.runtimePanic(ins, "invalid memory address or nil pointer dereference")
		}
		e.store(p, e.get(fr, x.Val))
	case *ssa.UnOp:
		return e.unop(fr, x)
	case *ssa.BinOp:
		v, p := e.binop(x, x.Op, e.get(fr, x.X), e.get(fr, x.Y), x.X.Type(), x.Y.Type())
		if p != nil {
			return p
		}
		fr.locals[x] = v
	case *ssa.Call:
		f, args, inv := e.prepareCall(fr, &x.Call)
		var v Value
		var p *GoPanic
		if b, ok := f.(BuiltinV); ok {
			v, p = e.callBuiltin(b.b, args, fr, nil, x)
		} else {
			v, p = e.callValue(f, args, inv, fr, nil)
		}
		if p != nil {
			return p
		}
		fr.locals[x] = v
	case *ssa.Defer:
		f, args, inv := e.prepareCall(fr, &x.Call)
		fr.defers = append(fr.defers, deferred{fn: f, args: args, inv: inv})
	case *ssa.Go:
		if !e.ignoreGo {
			e.unsupported("go statement in %s", fr.fn)
		}
		e.w.stats.GoSkipped++ // the harness asked for the calling path only (zz.IgnoreGo): the goroutine is not run
	case *ssa.MakeChan:
		// channels are opaque handles: creating one is fine, using one is not supported
		e.objN++
		fr.locals[x] = ChanV{id: e.objN}
	case *ssa.Send, *ssa.Select:
		e.unsupported("channel operation in %s", fr.fn)
	case *ssa.ChangeType:
		fr.locals[x] = e.get(fr, x.X)
	case *ssa.ChangeInterface:
		fr.locals[x] = e.get(fr, x.X)
	case *ssa.MakeInterface:
		fr.locals[x] = IfaceV{typ: x.X.Type(), val: e.get(fr, x.X)}
	case *ssa.Convert:
		fr.locals[x] = e.convert(x, e.get(fr, x.X), x.X.Type(), x.Type())
	case *ssa.Extract:
		fr.locals[x] = e.get(fr, x.Tuple).(TupleV)[x.Index]
	case *ssa.Field:
		fr.locals[x] = copyValue(e.get(fr, x.X).(*StructV).f[x.Field])
	case *ssa.FieldAddr:
		p := e.get(fr, x.X).(Ptr)
		if p.obj == nil {
			return e.runtimePanic(ins, "invalid memory address or nil pointer dereference")
		}
		fr.locals[x] = Ptr{obj: p.obj, path: append(append([]interface{}{}, p.path...), x.Field)}
	case *ssa.Index:
		return e.index(fr, x)
	case *ssa.IndexAddr:
		return e.indexAddr(fr, x)
	case *ssa.Lookup:
		return e.lookup(fr, x)
	case *ssa.Slice:
		return e.sliceOp(fr, x)
	case *ssa.MakeSlice:
		n := e.get(fr, x.Len).(*Term)
		c := e.get(fr, x.Cap).(*Term)
		if e.allocLimit > 0 && !n.IsConst() && n.sort.K == KBV {
			// allocation obligation first: one fork "larger than the limit" instead of enumerating sizes
			esz := e.eng.sizes.Sizeof(x.Type().Underlying().(*types.Slice).Elem())
			lim := e.ctx.Const(n.sort.W, uint64(e.allocLimit/esz))
			var tooBig *Term
			if isSigned(x.Len.Type()) {
				tooBig = e.ctx.BAnd(e.ctx.Cmp(OpSlt, lim, n), e.ctx.Cmp(OpSle, e.ctx.Const(n.sort.W, 0), n))
			} else {
				tooBig = e.ctx.Cmp(OpUlt, lim, n)
			}
			if e.branch(tooBig, ins) {
				panic(pathEnd{"alloc", fmt.Sprintf("allocation whose size is taken from the input exceeds %d bytes at %s", e.allocLimit, e.posOf(ins))})
			}
		}
		ni := e.concretizeInt(n, x.Len.Type(), "make-len")
		ci := ni
		if c != n {
			ci = e.concretizeInt(c, x.Cap.Type(), "make-cap")
		}
		if ni < 0 || ci < ni {
			return e.runtimePanic(ins, "makeslice: len out of range")
		}
		if ci > e.maxAlloc {
			panic(pathEnd{"alloc", fmt.Sprintf("allocation of %d elements at %s", ci, e.posOf(ins))})
		}
		fr.locals[x] = e.makeSlice(x.Type().Underlying().(*types.Slice).Elem(), int(ni), int(ci))
	case *ssa.MakeMap:
		mt := x.Type().Underlying().(*types.Map)
		e.objN++
		fr.locals[x] = MapV{m: &MapObj{id: e.objN, idx: map[string]int{}, kt: mt.Key(), vt: mt.Elem()}}
	case *ssa.MakeClosure:
		bind := make([]Value, len(x.Bindings))
		for i, b := range x.Bindings {
			bind[i] = e.get(fr, b)
		}
		fr.locals[x] = &ClosureV{fn: x.Fn.(*ssa.Function), bind: bind}
	case *ssa.MapUpdate:
		m := e.get(fr, x.Map).(MapV)
		if m.m == nil {
			return &GoPanic{msg: "assignment to entry in nil map", runtime: true, val: IfaceV{typ: e.eng.runtimeErrType, val: StrV{s: "assignment to entry in nil map"}}, where: e.posOf(ins)}
		}
		e.mapSet(m.m, e.get(fr, x.Key), e.get(fr, x.Value))
	case *ssa.Range:
		fr.locals[x] = e.rangeStart(e.get(fr, x.X))
	case *ssa.Next:
		fr.locals[x] = e.rangeNext(e.get(fr, x.Iter).(*RangeIter), x)
	case *ssa.TypeAssert:
		return e.typeAssert(fr, x)
	case *ssa.SliceToArrayPointer:
		s := e.get(fr, x.X).(SliceV)
		n := int(x.Type().(*types.Pointer).Elem().Underlying().(*types.Array).Len())
		if s.len < n {
			return e.runtimePanic(ins, "cannot convert slice to array pointer: length too short")
		}
		if s.off != 0 || s.cap != n {
			e.unsupported("slice to array pointer with offset")
		}
		fr.locals[x] = s.base
	default:
		e.unsupported("instruction %T in %s", ins, fr.fn)
	}
	return nil
}

func (e *Exec) unop(fr *Frame, x *ssa.UnOp) *GoPanic {
	v := e.get(fr, x.X)
	switch x.Op {
	case token.MUL:
		p := v.(Ptr)
		if p.obj == nil {
			return e.runtimePanic(x, "invalid memory address or nil pointer dereference")
		}
		fr.locals[x] = e.load(p)
	case token.NOT:
		fr.locals[x] = e.ctx.BNot(v.(*Term))
	case token.SUB:
		switch t := v.(type) {
		case *Term:
			if t.sort.K == KInt {
				fr.locals[x] = e.arithWrap(e.ctx.RBin(OpRSub, e.ctx.IntConst(0), t), x.Type())
			} else {
				fr.locals[x] = e.ctx.Neg(t)
			}
		case FloatV:
			fr.locals[x] = FloatV{-t.f}
		case RealV:
			fr.locals[x] = RealV{e.ctx.RBin(OpRSub, e.ctx.RealConstInt(0), t.t)}
		default:
			e.unsupported("negation of %T", v)
		}
	case token.XOR:
		t := v.(*Term)
		if t.sort.K == KInt {
			e.unsupported("bitwise complement in arithmetic mode")
		}
		fr.locals[x] = e.ctx.Not(t)
	case token.ARROW:
		e.unsupported("channel receive in %s", fr.fn)
	default:
		e.unsupported("unary op %s", x.Op)
	}
	return nil
}

func (e *Exec) cmpOp(op token.Token, signed bool, a, b *Term) *Term {
	c := e.ctx
	if a.sort.K == KBool {
		switch op {
		case token.EQL:
			return c.Eq(a, b)
		case token.NEQ:
			return c.BNot(c.Eq(a, b))
		}
	}
	if a.sort.K == KInt || a.sort.K == KReal {
		switch op {
		case token.EQL:
			return c.Eq(a, b)
		case token.NEQ:
			return c.BNot(c.Eq(a, b))
		case token.LSS:
			return c.RCmp(OpRLt, a, b)
		case token.LEQ:
			return c.RCmp(OpRLe, a, b)
		case token.GTR:
			return c.RCmp(OpRLt, b, a)
		case token.GEQ:
			return c.RCmp(OpRLe, b, a)
		}
	}
	lt, le := OpUlt, OpUle
	if signed {
		lt, le = OpSlt, OpSle
	}
	switch op {
	case token.EQL:
		return c.Eq(a, b)
	case token.NEQ:
		return c.BNot(c.Eq(a, b))
	case token.LSS:
		return c.Cmp(lt, a, b)
	case token.LEQ:
		return c.Cmp(le, a, b)
	case token.GTR:
		return c.Cmp(lt, b, a)
	case token.GEQ:
		return c.Cmp(le, b, a)
	}
	panic(pathEnd{"internal", "cmpOp " + op.String()})
}

func (e *Exec) binop(ins ssa.Instruction, op token.Token, a, b Value, ta, tb types.Type) (Value, *GoPanic) {
	c := e.ctx
	switch x := a.(type) {
	case *Term:
		y, ok := b.(*Term)
		if !ok {
			panic(pathEnd{"internal", fmt.Sprintf("binop %s on term and %T", op, b)})
		}
		if x.sort.K == KInt || y.sort.K == KInt {
			return e.arithBinop(ins, op, x, y, ta, tb)
		}
		signed := isSigned(ta)
		switch op {
		case token.EQL, token.NEQ, token.LSS, token.LEQ, token.GTR, token.GEQ:
			return e.cmpOp(op, signed, x, y), nil
		case token.ADD:
			return c.BinBV(OpAdd, x, y), nil
		case token.SUB:
			return c.BinBV(OpSub, x, y), nil
		case token.MUL:
			return c.BinBV(OpMul, x, y), nil
		case token.QUO, token.REM:
			zero := c.Const(y.sort.W, 0)
			if e.branch(c.Eq(y, zero), ins) {
				return nil, e.runtimePanic(ins, "integer divide by zero")
			}
			var o Op
			switch {
			case op == token.QUO && signed:
				o = OpSDiv
			case op == token.QUO:
				o = OpUDiv
			case signed:
				o = OpSRem
			default:
				o = OpURem
			}
			return c.BinBV(o, x, y), nil
		case token.AND:
			return c.BinBV(OpAnd, x, y), nil
		case token.OR:
			return c.BinBV(OpOr, x, y), nil
		case token.XOR:
			return c.BinBV(OpXor, x, y), nil
		case token.AND_NOT:
			return c.BinBV(OpAnd, x, c.Not(y)), nil
		case token.SHL, token.SHR:
			w := x.sort.W
			if isSigned(tb) {
				if e.branch(c.Cmp(OpSlt, y, c.Const(y.sort.W, 0)), ins) {
					return nil, e.runtimePanic(ins, "negative shift amount")
				}
			}
			var o Op
			switch {
			case op == token.SHL:
				o = OpShl
			case signed:
				o = OpAShr
			default:
				o = OpLShr
			}
			var cnt *Term
			if y.sort.W <= w {
				cnt = c.ZExt(y, w-y.sort.W)
				return c.BinBV(o, x, cnt), nil
			}
			// wider count: saturate
			big := c.Cmp(OpUle, c.Const(y.sort.W, uint64(w)), y)
			cnt = c.Ite(big, c.Const(w, uint64(w)), c.Extract(y, w-1, 0))
			return c.BinBV(o, x, cnt), nil
		}
	case FloatV:
		switch y := b.(type) {
		case FloatV:
			return e.floatBinop(op, x.f, y.f, ta), nil
		case RealV:
			return e.realBinop(op, e.ctx.RealConstF(x.f), y.t), nil
		}
	case RealV:
		switch y := b.(type) {
		case FloatV:
			return e.realBinop(op, x.t, e.ctx.RealConstF(y.f)), nil
		case RealV:
			return e.realBinop(op, x.t, y.t), nil
		}
	case StrV:
		y := b.(StrV)
		switch op {
		case token.ADD:
			if x.sym == nil && y.sym == nil {
				return StrV{s: x.s + y.s}, nil
			}
			return e.mkStr(append(append([]*Term{}, e.strBytes(x)...), e.strBytes(y)...)), nil
		case token.EQL, token.NEQ:
			eq := e.strEq(x, y)
			if op == token.NEQ {
				eq = c.BNot(eq)
			}
			return eq, nil
		default:
			if x.sym == nil && y.sym == nil {
				var r bool
				switch op {
				case token.LSS:
					r = x.s < y.s
				case token.LEQ:
					r = x.s <= y.s
				case token.GTR:
					r = x.s > y.s
				case token.GEQ:
					r = x.s >= y.s
				}
				return c.Bool(r), nil
			}
			e.unsupported("ordering of symbolic strings")
		}
	}
	_, oa := a.(OpaqueF)
	_, ob := b.(OpaqueF)
	if oa || ob {
		switch op {
		case token.ADD, token.SUB, token.MUL, token.QUO:
			return OpaqueF{}, nil
		}
		e.unsupported("comparison of an opaque symbolic float (bit-vector mode) at %s", e.posOf(ins))
	}
	// reference equality
	if op == token.EQL || op == token.NEQ {
		eq := e.valueEq(a, b)
		if op == token.NEQ {
			eq = c.BNot(eq)
		}
		return eq, nil
	}
	e.unsupported("binop %s on %T,%T", op, a, b)
	return nil, nil
}

func (e *Exec) floatBinop(op token.Token, x, y float64, t types.Type) Value {
	f32 := false
	if b, ok := t.Underlying().(*types.Basic); ok && b.Kind() == types.Float32 {
		f32 = true
	}
	rnd := func(v float64) Value {
		if f32 {
			return FloatV{float64(float32(v))}
		}
		return FloatV{v}
	}
	switch op {
	case token.ADD:
		return rnd(x + y)
	case token.SUB:
		return rnd(x - y)
	case token.MUL:
		return rnd(x * y)
	case token.QUO:
		return rnd(x / y)
	case token.EQL:
		return e.ctx.Bool(x == y)
	case token.NEQ:
		return e.ctx.Bool(x != y)
	case token.LSS:
		return e.ctx.Bool(x < y)
	case token.LEQ:
		return e.ctx.Bool(x <= y)
	case token.GTR:
		return e.ctx.Bool(x > y)
	case token.GEQ:
		return e.ctx.Bool(x >= y)
	}
	e.unsupported("float op %s", op)
	return nil
}

func (e *Exec) strEq(x, y StrV) *Term {
	if x.Len() != y.Len() {
		return e.ctx.False
	}
	if x.sym == nil && y.sym == nil {
		return e.ctx.Bool(x.s == y.s)
	}
	xb, yb := e.strBytes(x), e.strBytes(y)
	r := e.ctx.True
	for i := range xb {
		r = e.ctx.BAnd(r, e.ctx.Eq(xb[i], yb[i]))
	}
	return r
}

// valueEq: Go == on arbitrary comparable values.
func (e *Exec) valueEq(a, b Value) *Term {
	c := e.ctx
	switch x := a.(type) {
	case nil:
		return c.Bool(isNilValue(b))
	case *Term:
		if y, ok := b.(*Term); ok {
			return c.Eq(x, y)
		}
	case FloatV:
		if y, ok := b.(FloatV); ok {
			return c.Bool(x.f == y.f)
		}
	case StrV:
		if y, ok := b.(StrV); ok {
			return e.strEq(x, y)
		}
	case Ptr:
		switch y := b.(type) {
		case Ptr:
			if x.obj != y.obj {
				return c.False
			}
			if len(x.path) != len(y.path) {
				return c.False
			}
			r := c.True
			for i := range x.path {
				xi, xok := x.path[i].(int)
				yi, yok := y.path[i].(int)
				if xok && yok {
					if xi != yi {
						return c.False
					}
					continue
				}
				e.unsupported("comparison of pointers with symbolic index")
			}
			return r
		case nil:
			return c.Bool(x.obj == nil)
		}
	case SliceV:
		if isNilValue(b) {
			return c.Bool(x.base.obj == nil)
		}
	case MapV:
		if y, ok := b.(MapV); ok {
			return c.Bool(x.m == y.m)
		}
		if b == nil {
			return c.Bool(x.m == nil)
		}
	case *ClosureV:
		if isNilValue(b) {
			return c.Bool(x == nil)
		}
	case IfaceV:
		y, ok := b.(IfaceV)
		if !ok {
			if b == nil {
				return c.Bool(x.typ == nil)
			}
			break
		}
		if x.typ == nil || y.typ == nil {
			return c.Bool(x.typ == nil && y.typ == nil)
		}
		if !types.Identical(x.typ, y.typ) {
			return c.False
		}
		return e.valueEq(x.val, y.val)
	case *StructV:
		if y, ok := b.(*StructV); ok {
			r := c.True
			for i := range x.f {
				r = c.BAnd(r, e.valueEq(x.f[i], y.f[i]))
			}
			return r
		}
	case *ArrayV:
		if y, ok := b.(*ArrayV); ok {
			r := c.True
			for i := range x.e {
				r = c.BAnd(r, e.valueEq(x.e[i], y.e[i]))
			}
			return r
		}
	}
	if isNilValue(a) && isNilValue(b) {
		return c.True
	}
	e.unsupported("equality of %T and %T", a, b)
	return nil
}

func (e *Exec) convert(ins ssa.Instruction, v Value, from, to types.Type) Value {
	c := e.ctx
	fu, tu := from.Underlying(), to.Underlying()
	switch {
	case isInteger(to) && isInteger(from):
		t := v.(*Term)
		if t.sort.K == KInt {
			return e.arithWrap(t, to)
		}
		return c.Resize(t, e.width(to), isSigned(from))
	case isFloat(to) && isInteger(from):
		t := v.(*Term)
		if t.sort.K == KInt {
			return e.realFromInt(t)
		}
		if !t.IsConst() {
			if e.arith {
				return e.realFromInt(e.bvToInt(t, isSigned(from)))
			}
			// bit-vector mode has no symbolic floats: the value is carried as an opaque float that may be
			// stored and passed around but not inspected
			return OpaqueF{}
		}
		var f float64
		if isSigned(from) {
			f = float64(sext64(t.val, t.sort.W))
		} else {
			f = float64(t.val)
		}
		if tu.(*types.Basic).Kind() == types.Float32 {
			f = float64(float32(f))
		}
		return FloatV{f}
	case isInteger(to) && isFloat(from):
		if _, ok := v.(OpaqueF); ok {
			// over-approximation: the integer result of a float computation the bit-vector mode does not track
			// is an unconstrained fresh value (sound for "holds"; counterexamples are replayed natively)
			e.realN++
			e.w.stats.OpaqueInts++
			return c.Var(fmt.Sprintf("opaque!%d", e.realN), BV(e.width(to)))
		}
		if rv, ok := v.(RealV); ok {
			return e.realToInt(ins, rv, to)
		}
		f := v.(FloatV).f
		if f != f || math.IsInf(f, 0) {
			// implementation-defined in Go; amd64 yields MinInt64
			if e.arith {
				return e.ctx.IntConst(math.MinInt64)
			}
			return c.Const(e.width(to), 1<<63)
		}
		var r uint64
		if isSigned(to) {
			if f >= 9.3e18 || f <= -9.3e18 {
				r = 1 << 63
			} else {
				r = uint64(int64(f))
			}
		} else {
			if f < 0 {
				r = uint64(int64(f))
			} else if f >= 1.8446744073709552e19 {
				r = 1 << 63
			} else {
				r = uint64(f)
			}
		}
		if e.arith {
			if isSigned(to) {
				return e.arithWrap(e.ctx.IntConst(int64(r)), to)
			}
			return e.arithWrap(e.ctx.IntConstU(r), to)
		}
		return c.Const(e.width(to), r)
	case isFloat(to) && isFloat(from):
		if rv, ok := v.(RealV); ok {
			return rv
		}
		if _, ok := v.(OpaqueF); ok {
			return v
		}
		f := v.(FloatV).f
		if tu.(*types.Basic).Kind() == types.Float32 {
			f = float64(float32(f))
		}
		return FloatV{f}
	case isString(to):
		switch x := v.(type) {
		case StrV:
			return x
		case SliceV: // []byte or []rune → string
			el := fu.(*types.Slice).Elem().Underlying().(*types.Basic)
			if el.Kind() == types.Uint8 {
				return e.mkStr(e.sliceBytes(x))
			}
			e.unsupported("string([]rune)")
		case *Term: // string(rune)
			if x.IsConst() {
				return StrV{s: string(rune(sext64(x.val, x.sort.W)))}
			}
			if x.op == OpRConst && x.rat.IsInt() {
				return StrV{s: string(rune(x.rat.Num().Int64()))}
			}
			e.unsupported("string(symbolic rune)")
		}
	case isString(from):
		s := v.(StrV)
		if sl, ok := tu.(*types.Slice); ok {
			el := sl.Elem().Underlying().(*types.Basic)
			if el.Kind() == types.Uint8 {
				bs := e.strBytes(s)
				r := e.bytesToSlice(append([]*Term{}, bs...))
				e.allocBytes += int64(len(bs))
				return r
			}
			if el.Kind() == types.Int32 && s.sym == nil {
				rs := []rune(s.s)
				sv := e.makeSlice(sl.Elem(), len(rs), len(rs))
				for i, r := range rs {
					e.sliceSet(sv, i, c.Const(32, uint64(r)))
				}
				return sv
			}
		}
	}
	switch tu.(type) {
	case *types.Pointer, *types.Slice, *types.Signature, *types.Map, *types.Interface, *types.Struct, *types.Array:
		if _, isBasic := fu.(*types.Basic); !isBasic {
			return v
		}
	}
	e.unsupported("conversion %s → %s at %s", from, to, e.posOf(ins))
	return nil
}

func (e *Exec) index(fr *Frame, x *ssa.Index) *GoPanic {
	base := e.get(fr, x.X)
	idx := e.get(fr, x.Index).(*Term)
	switch b := base.(type) {
	case *ArrayV:
		i, p := e.boundIndex(x, idx, x.Index.Type(), len(b.e))
		if p != nil {
			return p
		}
		if ci, ok := i.(int); ok {
			fr.locals[x] = copyValue(b.e[ci])
			return nil
		}
		obj := e.newObject(b, nil, "tmp")
		fr.locals[x] = e.load(Ptr{obj: obj, path: []interface{}{i}})
	case StrV:
		i, p := e.boundIndex(x, idx, x.Index.Type(), b.Len())
		if p != nil {
			return p
		}
		bs := e.strBytes(b)
		if ci, ok := i.(int); ok {
			fr.locals[x] = bs[ci]
			return nil
		}
		it := i.(*Term)
		var acc *Term
		for k := len(bs) - 1; k >= 0; k-- {
			if acc == nil {
				acc = bs[k]
			} else {
				acc = e.ctx.Ite(e.ctx.Eq(it, e.ctx.Const(it.sort.W, uint64(k))), bs[k], acc)
			}
		}
		fr.locals[x] = acc
	default:
		e.unsupported("Index on %T", base)
	}
	return nil
}

// boundIndex checks 0 <= idx < n and returns int (concrete) or *Term (symbolic, 64-bit).
func (e *Exec) boundIndex(ins ssa.Instruction, idx *Term, it types.Type, n int) (interface{}, *GoPanic) {
	c := e.ctx
	if idx.sort.K == KInt {
		// arithmetic mode: concretise
		v := e.concretizeArith(idx, "index")
		if v < 0 || v >= int64(n) {
			return nil, e.runtimePanic(ins, fmt.Sprintf("index out of range [%d] with length %d", v, n))
		}
		return int(v), nil
	}
	w := idx.sort.W
	if idx.IsConst() {
		var v int64
		if isSigned(it) {
			v = sext64(idx.val, w)
		} else {
			v = int64(idx.val)
			if idx.val > math.MaxInt64 {
				v = -1
			}
		}
		if v < 0 || v >= int64(n) {
			return nil, e.runtimePanic(ins, fmt.Sprintf("index out of range [%d] with length %d", v, n))
		}
		return int(v), nil
	}
	wide := c.Resize(idx, 64, isSigned(it))
	inRange := c.Cmp(OpUlt, wide, c.Const(64, uint64(n)))
	if !e.branch(inRange, ins) {
		return nil, e.runtimePanic(ins, fmt.Sprintf("index out of range [symbolic] with length %d", n))
	}
	if n == 1 {
		return 0, nil
	}
	return wide, nil
}

func (e *Exec) indexAddr(fr *Frame, x *ssa.IndexAddr) *GoPanic {
	base := e.get(fr, x.X)
	idx := e.get(fr, x.Index).(*Term)
	switch b := base.(type) {
	case SliceV:
		i, p := e.boundIndex(x, idx, x.Index.Type(), b.len)
		if p != nil {
			return p
		}
		fr.locals[x] = e.sliceElemPtr(b, i)
	case Ptr: // *array
		if b.obj == nil {
			return e.runtimePanic(x, "invalid memory address or nil pointer dereference")
		}
		n := int(x.X.Type().Underlying().(*types.Pointer).Elem().Underlying().(*types.Array).Len())
		i, p := e.boundIndex(x, idx, x.Index.Type(), n)
		if p != nil {
			return p
		}
		fr.locals[x] = Ptr{obj: b.obj, path: append(append([]interface{}{}, b.path...), i)}
	default:
		e.unsupported("IndexAddr on %T", base)
	}
	return nil
}

func (e *Exec) sliceOp(fr *Frame, x *ssa.Slice) *GoPanic {
	base := e.get(fr, x.X)
	getBound := func(v ssa.Value, def int) (int, bool) {
		if v == nil {
			return def, true
		}
		t := e.get(fr, v).(*Term)
		return int(e.concretizeInt(t, v.Type(), "slice-bound")), true
	}
	switch b := base.(type) {
	case StrV:
		lo, _ := getBound(x.Low, 0)
		hi, _ := getBound(x.High, b.Len())
		if lo < 0 || hi < lo || hi > b.Len() {
			return e.runtimePanic(x, fmt.Sprintf("slice bounds out of range [%d:%d] with length %d", lo, hi, b.Len()))
		}
		if b.sym == nil {
			fr.locals[x] = StrV{s: b.s[lo:hi]}
		} else {
			fr.locals[x] = e.mkStr(b.sym[lo:hi])
		}
	case SliceV:
		lo, _ := getBound(x.Low, 0)
		hi, _ := getBound(x.High, b.len)
		mx, _ := getBound(x.Max, b.cap)
		if lo < 0 || hi < lo || mx < hi || mx > b.cap {
			return e.runtimePanic(x, fmt.Sprintf("slice bounds out of range [%d:%d:%d] with capacity %d", lo, hi, mx, b.cap))
		}
		if b.base.obj == nil {
			fr.locals[x] = SliceV{}
			return nil
		}
		fr.locals[x] = SliceV{base: b.base, off: b.off + lo, len: hi - lo, cap: mx - lo}
	case Ptr: // *array
		if b.obj == nil {
			return e.runtimePanic(x, "invalid memory address or nil pointer dereference")
		}
		n := int(x.X.Type().Underlying().(*types.Pointer).Elem().Underlying().(*types.Array).Len())
		lo, _ := getBound(x.Low, 0)
		hi, _ := getBound(x.High, n)
		mx, _ := getBound(x.Max, n)
		if lo < 0 || hi < lo || mx < hi || mx > n {
			return e.runtimePanic(x, fmt.Sprintf("slice bounds out of range [%d:%d:%d] with capacity %d", lo, hi, mx, n))
		}
		fr.locals[x] = SliceV{base: b, off: lo, len: hi - lo, cap: mx - lo}
	default:
		e.unsupported("Slice on %T", base)
	}
	return nil
}

// ---- maps ----

func (e *Exec) mapFind(m *MapObj, k Value) (int, bool) {
	if ck, ok := concreteKey(k); ok {
		if i, ok := m.idx[ck]; ok && !m.del[i] {
			return i, true
		}
	}
	return -1, false
}

func (e *Exec) mapSet(m *MapObj, k, v Value) {
	ck, conc := concreteKey(k)
	if !conc {
		// symbolic key: update matching entries by ite, append otherwise -- requires all existing keys concrete & a fork
		for i := range m.keys {
			if m.del[i] {
				continue
			}
			if e.branch(e.valueEq(m.keys[i], k), nil) {
				m.vals[i] = copyValue(v)
				return
			}
		}
		m.keys = append(m.keys, copyValue(k))
		m.vals = append(m.vals, copyValue(v))
		m.del = append(m.del, false)
		return
	}
	if i, ok := m.idx[ck]; ok && !m.del[i] {
		m.vals[i] = copyValue(v)
		return
	}
	// symbolic keys already present may equal k
	for i := range m.keys {
		if m.del[i] {
			continue
		}
		if _, c2 := concreteKey(m.keys[i]); c2 {
			continue
		}
		if e.branch(e.valueEq(m.keys[i], k), nil) {
			m.vals[i] = copyValue(v)
			return
		}
	}
	m.idx[ck] = len(m.keys)
	m.keys = append(m.keys, copyValue(k))
	m.vals = append(m.vals, copyValue(v))
	m.del = append(m.del, false)
}

func (e *Exec) mapDelete(m *MapObj, k Value) {
	if m == nil {
		return
	}
	if ck, ok := concreteKey(k); ok {
		if i, ok := m.idx[ck]; ok {
			m.del[i] = true
			delete(m.idx, ck)
		}
		for i := range m.keys {
			if m.del[i] {
				continue
			}
			if _, c2 := concreteKey(m.keys[i]); !c2 {
				if e.branch(e.valueEq(m.keys[i], k), nil) {
					m.del[i] = true
					return
				}
			}
		}
		return
	}
	for i := range m.keys {
		if m.del[i] {
			continue
		}
		if e.branch(e.valueEq(m.keys[i], k), nil) {
			m.del[i] = true
			if ck, ok := concreteKey(m.keys[i]); ok {
				delete(m.idx, ck)
			}
			return
		}
	}
}

func (e *Exec) mapGet(m *MapObj, k Value, vt types.Type) (Value, *Term) {
	zero := e.zero(vt)
	if m == nil {
		return zero, e.ctx.False
	}
	if ck, ok := concreteKey(k); ok {
		if i, ok := m.idx[ck]; ok && !m.del[i] {
			return copyValue(m.vals[i]), e.ctx.True
		}
		// symbolic keys present?
		allConc := true
		for i := range m.keys {
			if m.del[i] {
				continue
			}
			if _, c2 := concreteKey(m.keys[i]); !c2 {
				allConc = false
			}
		}
		if allConc {
			return zero, e.ctx.False
		}
	}
	// symbolic lookup: ite chain, falling back to forking
	var acc Value = zero
	found := e.ctx.False
	ok := true
	for i := len(m.keys) - 1; i >= 0; i-- {
		if m.del[i] {
			continue
		}
		eq := e.valueEq(m.keys[i], k)
		if eq.IsFalse() {
			continue
		}
		acc, ok = e.iteValue(eq, m.vals[i], acc)
		if !ok {
			break
		}
		found = e.ctx.BOr(eq, found)
	}
	if ok {
		return copyValue(acc), found
	}
	for i := range m.keys {
		if m.del[i] {
			continue
		}
		if e.branch(e.valueEq(m.keys[i], k), nil) {
			return copyValue(m.vals[i]), e.ctx.True
		}
	}
	return zero, e.ctx.False
}

func (e *Exec) lookup(fr *Frame, x *ssa.Lookup) *GoPanic {
	base := e.get(fr, x.X)
	k := e.get(fr, x.Index)
	switch b := base.(type) {
	case MapV:
		vt := x.X.Type().Underlying().(*types.Map).Elem()
		v, ok := e.mapGet(b.m, k, vt)
		if x.CommaOk {
			fr.locals[x] = TupleV{v, ok}
		} else {
			fr.locals[x] = v
		}
	case StrV:
		idx := k.(*Term)
		i, p := e.boundIndex(x, idx, x.Index.Type(), b.Len())
		if p != nil {
			return p
		}
		bs := e.strBytes(b)
		if ci, ok := i.(int); ok {
			fr.locals[x] = bs[ci]
			return nil
		}
		it := i.(*Term)
		var acc *Term
		for k := len(bs) - 1; k >= 0; k-- {
			if acc == nil {
				acc = bs[k]
			} else {
				acc = e.ctx.Ite(e.ctx.Eq(it, e.ctx.Const(it.sort.W, uint64(k))), bs[k], acc)
			}
		}
		fr.locals[x] = acc
	default:
		e.unsupported("Lookup on %T", base)
	}
	return nil
}

func (e *Exec) rangeStart(v Value) Value {
	switch x := v.(type) {
	case MapV:
		it := &RangeIter{}
		if x.m != nil {
			it.m = x.m
			for i := range x.m.keys {
				if !x.m.del[i] {
					it.keys = append(it.keys, x.m.keys[i])
					it.vals = append(it.vals, x.m.vals[i])
				}
			}
		}
		return it
	case StrV:
		return &RangeIter{isS: true, str: x}
	}
	e.unsupported("range over %T", v)
	return nil
}

func (e *Exec) rangeNext(it *RangeIter, x *ssa.Next) Value {
	c := e.ctx
	if it.isS {
		if it.str.sym != nil {
			// only ASCII-constrained symbolic strings could be supported; refuse
			e.unsupported("range over symbolic string")
		}
		s := it.str.s
		if it.pos >= len(s) {
			return TupleV{c.False, c.Const(64, 0), c.Const(32, 0)}
		}
		r, sz := decodeRune(s[it.pos:])
		p := it.pos
		it.pos += sz
		return TupleV{c.True, c.Const(64, uint64(p)), c.Const(32, uint64(r))}
	}
	tt := x.Type().(*types.Tuple)
	if it.pos >= len(it.keys) {
		return TupleV{c.False, e.zeroOrNil(tt.At(1).Type()), e.zeroOrNil(tt.At(2).Type())}
	}
	k, v := it.keys[it.pos], it.vals[it.pos]
	it.pos++
	return TupleV{c.True, copyValue(k), copyValue(v)}
}

func (e *Exec) zeroOrNil(t types.Type) Value {
	if b, ok := t.(*types.Basic); ok && b.Kind() == types.Invalid {
		return nil
	}
	return e.zero(t)
}

func decodeRune(s string) (rune, int) {
	for i, r := range s {
		_ = i
		n := len(string(r))
		if r == 0xFFFD && (len(s) < 3 || s[:3] != "�") {
			n = 1
		}
		return r, n
	}
	return 0, 0
}

func (e *Exec) typeAssert(fr *Frame, x *ssa.TypeAssert) *GoPanic {
	iv, ok := e.get(fr, x.X).(IfaceV)
	if !ok {
		panic(pathEnd{"internal", "TypeAssert on non-interface"})
	}
	var okb bool
	var res Value
	if _, isIface := x.AssertedType.Underlying().(*types.Interface); isIface {
		okb = iv.typ != nil && types.Implements(iv.typ, x.AssertedType.Underlying().(*types.Interface))
		if okb {
			res = iv
		} else {
			res = IfaceV{}
		}
	} else {
		okb = iv.typ != nil && types.Identical(iv.typ, x.AssertedType)
		if okb {
			res = iv.val
		} else {
			res = e.zero(x.AssertedType)
		}
	}
	if x.CommaOk {
		fr.locals[x] = TupleV{res, e.ctx.Bool(okb)}
		return nil
	}
	if !okb {
		have := "nil"
		if iv.typ != nil {
			have = iv.typ.String()
		}
		msg := fmt.Sprintf("interface conversion: interface is %s, not %s", have, x.AssertedType)
		return &GoPanic{msg: msg, runtime: true, val: IfaceV{typ: e.eng.runtimeErrType, val: StrV{s: msg}}, where: e.posOf(x)}
	}
	fr.locals[x] = res
	return nil
}

// ---- builtins ----

func (e *Exec) intTerm(v int64) *Term {
	if e.arith {
		return e.ctx.IntConst(v)
	}
	return e.ctx.Const(64, uint64(v))
}

func (e *Exec) callBuiltin(b *ssa.Builtin, args []Value, fr *Frame, deferOf *Frame, call *ssa.Call) (Value, *GoPanic) {
	c := e.ctx
	switch b.Name() {
	case "len":
		switch x := args[0].(type) {
		case StrV:
			return e.intTerm(int64(x.Len())), nil
		case SliceV:
			return e.intTerm(int64(x.len)), nil
		case MapV:
			if x.m == nil {
				return e.intTerm(0), nil
			}
			n := 0
			for i := range x.m.keys {
				if !x.m.del[i] {
					n++
				}
			}
			return e.intTerm(int64(n)), nil
		case *ArrayV:
			return e.intTerm(int64(len(x.e))), nil
		case Ptr:
			at := b.Type().(*types.Signature).Params().At(0).Type().Underlying().(*types.Pointer).Elem().Underlying().(*types.Array)
			return e.intTerm(at.Len()), nil
		}
	case "cap":
		switch x := args[0].(type) {
		case SliceV:
			return e.intTerm(int64(x.cap)), nil
		case *ArrayV:
			return e.intTerm(int64(len(x.e))), nil
		}
	case "append":
		s := args[0].(SliceV)
		var add []Value
		switch y := args[1].(type) {
		case SliceV:
			for i := 0; i < y.len; i++ {
				add = append(add, e.sliceGet(y, i))
			}
		case StrV:
			for _, t := range e.strBytes(y) {
				add = append(add, t)
			}
		default:
			e.unsupported("append of %T", args[1])
		}
		if len(add) == 0 {
			return s, nil
		}
		if s.base.obj != nil && s.len+len(add) <= s.cap {
			r := SliceV{base: s.base, off: s.off, len: s.len + len(add), cap: s.cap}
			for i, v := range add {
				e.sliceSet(r, s.len+i, v)
			}
			return r, nil
		}
		elem := b.Type().(*types.Signature).Params().At(0).Type().Underlying().(*types.Slice).Elem()
		nc := growCap(s.cap, s.len+len(add))
		r := e.makeSlice(elem, s.len+len(add), nc)
		for i := 0; i < s.len; i++ {
			e.sliceSet(r, i, e.sliceGet(s, i))
		}
		for i, v := range add {
			e.sliceSet(r, s.len+i, v)
		}
		return r, nil
	case "copy":
		d := args[0].(SliceV)
		var src []Value
		switch y := args[1].(type) {
		case SliceV:
			n := y.len
			if d.len < n {
				n = d.len
			}
			for i := 0; i < n; i++ {
				src = append(src, e.sliceGet(y, i))
			}
		case StrV:
			bs := e.strBytes(y)
			n := len(bs)
			if d.len < n {
				n = d.len
			}
			for i := 0; i < n; i++ {
				src = append(src, bs[i])
			}
		}
		for i, v := range src {
			e.sliceSet(d, i, v)
		}
		return e.intTerm(int64(len(src))), nil
	case "delete":
		e.mapDelete(args[0].(MapV).m, args[1])
		return nil, nil
	case "panic":
		return nil, &GoPanic{val: args[0], msg: e.describePanic(args[0])}
	case "recover":
		// recover is effective only when called directly by a deferred function
		if fr != nil && fr.deferOf != nil && fr.deferOf.panicking != nil && !fr.deferOf.recovered {
			p := fr.deferOf.panicking
			fr.deferOf.recovered = true
			if p.val == nil {
				return IfaceV{typ: e.eng.runtimeErrType, val: StrV{s: p.msg}}, nil
			}
			return p.val, nil
		}
		return IfaceV{}, nil
	case "print", "println":
		return nil, nil
	case "min", "max":
		acc := args[0]
		for _, a := range args[1:] {
			x, y := acc.(*Term), a.(*Term)
			signed := isSigned(b.Type().(*types.Signature).Params().At(0).Type())
			lt := e.cmpOp(token.LSS, signed, x, y)
			if b.Name() == "min" {
				acc = c.Ite(lt, x, y)
			} else {
				acc = c.Ite(lt, y, x)
			}
		}
		return acc, nil
	case "clear":
		switch x := args[0].(type) {
		case MapV:
			if x.m != nil {
				x.m.keys, x.m.vals, x.m.del, x.m.idx = nil, nil, nil, map[string]int{}
			}
			return nil, nil
		}
	case "String": // unsafe.String(ptr *byte, len)
		p, ok := args[0].(Ptr)
		n := int(e.concretizeInt(args[1].(*Term), types.Typ[types.Int], "unsafe.String length"))
		if ok && n == 0 {
			return StrV{}, nil
		}
		if ok && p.obj != nil && len(p.path) > 0 {
			if idx, isInt := p.path[len(p.path)-1].(int); isInt {
				bs := make([]*Term, n)
				for i := 0; i < n; i++ {
					q := Ptr{obj: p.obj, path: append(append([]interface{}{}, p.path[:len(p.path)-1]...), idx+i)}
					bs[i] = e.load(q).(*Term)
				}
				return e.mkStr(bs), nil
			}
		}
	case "ssa:wrapnilchk":
		if p, ok := args[0].(Ptr); ok && p.obj == nil {
			return nil, &GoPanic{msg: "value method called using nil pointer", runtime: true, val: IfaceV{typ: e.eng.runtimeErrType, val: StrV{s: "nil pointer"}}}
		}
		return args[0], nil
	}
	e.unsupported("builtin %s on %T", b.Name(), args[0])
	return nil, nil
}

func growCap(oldCap, need int) int {
	nc := oldCap * 2
	if nc < need {
		nc = need
	}
	if nc < 8 && need <= 8 {
		// mimic small-size rounding of the runtime loosely
		if need <= 8 {
			nc = 8
		}
	}
	return nc
}

func fnName(fn *ssa.Function) string { return strings.TrimPrefix(fn.String(), "") }
