package main

// Solver layer: one long-lived solver process per worker, all term definitions at base level
// (define-fun per hash-consed term), queries as check-sat-assuming over named Bool terms.

import (
	"bufio"
	"fmt"
	"io"
	"math"
	"math/big"
	"os"
	"os/exec"
	"strconv"
	"strings"
	"time"
)

var solverLogN int

type Result int

const (
	Unsat Result = iota
	Sat
	Unknown
)

func (r Result) String() string { return [...]string{"unsat", "sat", "unknown"}[r] }

type SolverSpec struct {
	Name string
	Argv []string
}

var solverSpecs = map[string]SolverSpec{
	"z3-new":   {"z3-new", []string{"z3-new", "-in"}},
	"z3":       {"z3", []string{"z3", "-in"}},
	"cvc5":     {"cvc5", []string{"cvc5", "--incremental", "--produce-models", "--lang=smt2"}},
	"cvc5-int": {"cvc5-int", []string{"cvc5", "--incremental", "--produce-models", "--lang=smt2", "--solve-bv-as-int=sum"}},
}

type Solver struct {
	spec        SolverSpec
	cmd         *exec.Cmd
	in          io.WriteCloser
	out         *bufio.Reader
	defined     map[int32]bool
	declared    map[string]bool
	timeoutMs   int
	Queries     int
	SatN        int
	UnsatN      int
	UnknownN    int
	Time        time.Duration
	errors      []string
	log         io.Writer
	dead        bool
	pendingDecl []*Term
	lastQuery   string
	fresh       bool // one-shot mode: (reset) before every check, plain (check-sat)
	stderr      *strings.Builder
}

func NewSolver(name string, timeoutMs int) (*Solver, error) {
	spec, ok := solverSpecs[name]
	if !ok {
		return nil, fmt.Errorf("unknown solver %q", name)
	}
	s := &Solver{spec: spec, timeoutMs: timeoutMs}
	if err := s.start(); err != nil {
		return nil, err
	}
	return s, nil
}

func (s *Solver) start() error {
	argv := append([]string{}, s.spec.Argv...)
	if strings.HasPrefix(s.spec.Name, "cvc5") && s.timeoutMs > 0 {
		argv = append(argv, "--tlimit-per="+strconv.Itoa(s.timeoutMs))
	}
	cmd := exec.Command(argv[0], argv[1:]...)
	in, err := cmd.StdinPipe()
	if err != nil {
		return err
	}
	out, err := cmd.StdoutPipe()
	if err != nil {
		return err
	}
	s.stderr = &strings.Builder{}
	cmd.Stderr = s.stderr
	if err := cmd.Start(); err != nil {
		return err
	}
	s.cmd, s.in, s.out = cmd, in, bufio.NewReaderSize(out, 1<<16)
	s.defined = map[int32]bool{}
	s.declared = map[string]bool{}
	s.dead = false
	if p := os.Getenv("VERIF_SOLVER_LOG"); p != "" {
		solverLogN++
		if f, err := os.Create(fmt.Sprintf("%s-%s-%d-%d.smt2", p, s.spec.Name, os.Getpid(), solverLogN)); err == nil {
			s.log = f
		}
	}
	s.send("(set-option :produce-models true)\n")
	if strings.HasPrefix(s.spec.Name, "z3") && s.timeoutMs > 0 {
		s.send(fmt.Sprintf("(set-option :timeout %d)\n", s.timeoutMs))
	}
	if strings.HasPrefix(s.spec.Name, "cvc5") {
		s.send("(set-logic ALL)\n")
	}
	return nil
}

func (s *Solver) Close() {
	if s.cmd != nil {
		s.in.Close()
		s.cmd.Process.Kill()
		s.cmd.Wait()
		s.cmd = nil
	}
}

// Restart drops all definitions (used when the term table is reset or the process died).
func (s *Solver) Restart() error {
	s.Close()
	return s.start()
}

func (s *Solver) send(txt string) {
	if s.log != nil {
		io.WriteString(s.log, txt)
	}
	io.WriteString(s.in, txt)
}

// define emits declarations/definitions for every subterm of t that the process has not seen.
func (s *Solver) define(t *Term, sb *strings.Builder) {
	switch t.op {
	case OpConst, OpRConst:
		return
	case OpVar:
		if !s.declared[t.name] {
			s.declared[t.name] = true
			fmt.Fprintf(sb, "(declare-const %s %s)\n", quoteName(t.name), t.sort)
		}
		return
	}
	if s.defined[t.id] {
		return
	}
	// iterative post-order to avoid deep recursion on long chains
	type fr struct {
		t *Term
		i int
	}
	st := []fr{{t, 0}}
	for len(st) > 0 {
		f := &st[len(st)-1]
		if f.i < len(f.t.args) {
			a := f.t.args[f.i]
			f.i++
			switch a.op {
			case OpConst, OpRConst:
			case OpVar:
				if !s.declared[a.name] {
					s.declared[a.name] = true
					fmt.Fprintf(sb, "(declare-const %s %s)\n", quoteName(a.name), a.sort)
				}
			default:
				if !s.defined[a.id] {
					st = append(st, fr{a, 0})
				}
			}
			continue
		}
		if !s.defined[f.t.id] {
			s.defined[f.t.id] = true
			fmt.Fprintf(sb, "(define-fun t%d () %s %s)\n", f.t.id, f.t.sort, termBody(f.t))
		}
		st = st[:len(st)-1]
	}
}

func (s *Solver) readLine() (string, error) {
	for {
		line, err := s.out.ReadString('\n')
		if err != nil {
			s.dead = true
			return "", err
		}
		line = strings.TrimSpace(line)
		if line == "" {
			continue
		}
		return line, nil
	}
}

// Declare makes sure the given variables exist in the solver (so that get-value can name them after a check).
func (s *Solver) Declare(vars []*Term) {
	if s.fresh {
		s.pendingDecl = vars
		return
	}
	var sb strings.Builder
	for _, v := range vars {
		if !s.declared[v.name] {
			s.declared[v.name] = true
			fmt.Fprintf(&sb, "(declare-const %s %s)\n", quoteName(v.name), v.sort)
		}
	}
	if sb.Len() > 0 {
		s.send(sb.String())
	}
}

// Check decides satisfiability of the conjunction of conds.
func (s *Solver) Check(conds []*Term) Result {
	if s.dead {
		if err := s.Restart(); err != nil {
			return Unknown
		}
	}
	t0 := time.Now()
	var sb strings.Builder
	if s.fresh {
		// a fresh context lets z3 use its full preprocessing + bit-blasting pipeline instead of the incremental core
		sb.WriteString("(reset)\n(set-option :produce-models true)\n")
		if s.timeoutMs > 0 {
			fmt.Fprintf(&sb, "(set-option :timeout %d)\n", s.timeoutMs)
		}
		s.defined = map[int32]bool{}
		s.declared = map[string]bool{}
		for _, v := range s.pendingDecl {
			if !s.declared[v.name] {
				s.declared[v.name] = true
				fmt.Fprintf(&sb, "(declare-const %s %s)\n", quoteName(v.name), v.sort)
			}
		}
	}
	for _, c := range conds {
		s.define(c, &sb)
	}
	if s.fresh {
		for _, c := range conds {
			if c.IsTrue() {
				continue
			}
			sb.WriteString("(assert ")
			sb.WriteString(termRef(c))
			sb.WriteString(")\n")
		}
		sb.WriteString("(check-sat)\n")
	} else {
		sb.WriteString("(check-sat-assuming (")
		for _, c := range conds {
			if c.IsTrue() {
				continue
			}
			sb.WriteString(termRef(c))
			sb.WriteString(" ")
		}
		sb.WriteString("))\n")
	}
	s.send(sb.String())
	s.Queries++
	s.lastQuery = ""
	if s.fresh {
		s.lastQuery = sb.String()
	}
	res := Unknown
	for {
		line, err := s.readLine()
		if err != nil {
			msg := "solver died: " + err.Error()
			if s.stderr != nil && s.stderr.Len() > 0 {
				e := s.stderr.String()
				if len(e) > 300 {
					e = e[:300]
				}
				msg += " stderr: " + strings.ReplaceAll(e, "\n", " | ")
			}
			s.errors = append(s.errors, msg)
			break
		}
		if strings.HasPrefix(line, "(error") {
			s.errors = append(s.errors, line)
			// an error line is followed by nothing for a failed command; the check-sat itself still answers
			// unless the error was about it. Treat as inconclusive and resynchronise with an echo.
			s.send("(echo \"sync\")\n")
			for {
				l2, err := s.readLine()
				if err != nil || strings.Contains(l2, "sync") {
					break
				}
			}
			break
		}
		switch line {
		case "sat":
			res = Sat
		case "unsat":
			res = Unsat
		case "unknown", "timeout":
			res = Unknown
		default:
			continue
		}
		break
	}
	switch res {
	case Sat:
		s.SatN++
	case Unsat:
		s.UnsatN++
	default:
		s.UnknownN++
		if d := os.Getenv("VERIF_DUMP_UNKNOWN"); d != "" && s.lastQuery != "" {
			solverLogN++
			os.WriteFile(fmt.Sprintf("%s/unknown-%d-%d.smt2", d, os.Getpid(), solverLogN), []byte(s.lastQuery), 0o644)
		}
	}
	s.Time += time.Since(t0)
	return res
}

// Values fetches model values of the given variables after a sat answer.
func (s *Solver) Values(vars []*Term) (Model, error) {
	m := Model{}
	if len(vars) == 0 {
		return m, nil
	}
	const batch = 200
	for i := 0; i < len(vars); i += batch {
		j := i + batch
		if j > len(vars) {
			j = len(vars)
		}
		var sb strings.Builder
		for _, v := range vars[i:j] {
			if !s.declared[v.name] {
				s.declared[v.name] = true
				fmt.Fprintf(&sb, "(declare-const %s %s)\n", quoteName(v.name), v.sort)
			}
		}
		sb.WriteString("(get-value (")
		for _, v := range vars[i:j] {
			sb.WriteString(quoteName(v.name))
			sb.WriteString(" ")
		}
		sb.WriteString("))\n")
		s.send(sb.String())
		// read a balanced s-expression
		txt, err := s.readSexp()
		if err != nil {
			return nil, err
		}
		if strings.HasPrefix(txt, "(error") {
			return nil, fmt.Errorf("get-value: %s", txt)
		}
		parseValues(txt, m)
	}
	return m, nil
}

func (s *Solver) readSexp() (string, error) {
	var sb strings.Builder
	depth := 0
	started := false
	inBar := false
	for {
		b, err := s.out.ReadByte()
		if err != nil {
			s.dead = true
			return "", err
		}
		sb.WriteByte(b)
		switch {
		case b == '|':
			inBar = !inBar
		case inBar:
		case b == '(':
			depth++
			started = true
		case b == ')':
			depth--
		}
		if started && depth == 0 {
			return strings.TrimSpace(sb.String()), nil
		}
	}
}

// parseValues parses ((|name| #x0f) (|n2| true) ...) into m.
func parseValues(txt string, m Model) {
	i := 0
	n := len(txt)
	skipWS := func() {
		for i < n && (txt[i] == ' ' || txt[i] == '\n' || txt[i] == '\t' || txt[i] == '\r') {
			i++
		}
	}
	skipWS()
	if i < n && txt[i] == '(' {
		i++
	}
	for {
		skipWS()
		if i >= n || txt[i] == ')' {
			return
		}
		if txt[i] != '(' {
			return
		}
		i++
		skipWS()
		var name string
		if txt[i] == '|' {
			j := strings.IndexByte(txt[i+1:], '|')
			name = txt[i+1 : i+1+j]
			i += j + 2
		} else {
			j := i
			for j < n && txt[j] != ' ' && txt[j] != '\n' {
				j++
			}
			name = txt[i:j]
			i = j
		}
		skipWS()
		// value: #x.., #b.., true, false, (_ bvN w)
		j := i
		depth := 0
		for j < n {
			if txt[j] == '(' {
				depth++
			} else if txt[j] == ')' {
				if depth == 0 {
					break
				}
				depth--
			}
			j++
		}
		val := strings.TrimSpace(txt[i:j])
		i = j + 1
		switch {
		case strings.HasPrefix(val, "#x"):
			v, _ := strconv.ParseUint(val[2:], 16, 64)
			m[name] = v
		case strings.HasPrefix(val, "#b"):
			v, _ := strconv.ParseUint(val[2:], 2, 64)
			m[name] = v
		case val == "true":
			m[name] = 1
		case val == "false":
			m[name] = 0
		case strings.HasPrefix(val, "(_ bv"):
			f := strings.Fields(val[5:])
			v, _ := strconv.ParseUint(f[0], 10, 64)
			m[name] = v
		default:
			// Int / Real values: integers as two's complement, reals additionally as float64 bits under "name@f64"
			if r, ok := parseNumeral(val); ok {
				if r.IsInt() {
					m[name] = new(big.Int).And(r.Num(), new(big.Int).SetUint64(^uint64(0))).Uint64()
					if r.Sign() < 0 {
						m[name] = uint64(r.Num().Int64())
					}
				}
				f, _ := r.Float64()
				m[name+"@f64"] = math.Float64bits(f)
			} else {
				m[name] = 0
			}
		}
	}
}

// parseNumeral parses SMT-LIB Int/Real values: 12, 1.5, (- 3), (/ 1.0 3.0), (- (/ 1 3)).
func parseNumeral(v string) (*big.Rat, bool) {
	v = strings.TrimSpace(v)
	if strings.HasPrefix(v, "(") && strings.HasSuffix(v, ")") {
		in := strings.TrimSpace(v[1 : len(v)-1])
		switch {
		case strings.HasPrefix(in, "- "):
			r, ok := parseNumeral(in[2:])
			if !ok {
				return nil, false
			}
			return r.Neg(r), true
		case strings.HasPrefix(in, "/ "):
			rest := strings.TrimSpace(in[2:])
			// split into two s-expressions
			depth, cut := 0, -1
			for i, ch := range rest {
				if ch == '(' {
					depth++
				} else if ch == ')' {
					depth--
				} else if ch == ' ' && depth == 0 {
					cut = i
					break
				}
			}
			if cut < 0 {
				return nil, false
			}
			a, ok1 := parseNumeral(rest[:cut])
			b, ok2 := parseNumeral(rest[cut+1:])
			if !ok1 || !ok2 || b.Sign() == 0 {
				return nil, false
			}
			return a.Quo(a, b), true
		}
		return nil, false
	}
	v = strings.TrimSuffix(v, "?")
	r, ok := new(big.Rat).SetString(v)
	return r, ok
}
