package main

// Terms: hash-consed SMT terms over Bool and fixed-width bit-vectors (plus Int/Real for the
// rounding-envelope mode). Everything that is concrete is folded at construction time.

import (
	"fmt"
	"math/big"
	"math/bits"
	"sort"
	"strings"
)

type Op uint8

const (
	OpConst Op = iota
	OpVar
	OpAdd
	OpSub
	OpMul
	OpUDiv
	OpURem
	OpSDiv
	OpSRem
	OpAnd
	OpOr
	OpXor
	OpNot
	OpNeg
	OpShl
	OpLShr
	OpAShr
	OpConcat
	OpExtract // val = hi<<8 | lo
	OpZExt    // val = extra bits
	OpSExt    // val = extra bits
	OpEq
	OpUlt
	OpUle
	OpSlt
	OpSle
	OpBAnd
	OpBOr
	OpBNot
	OpIte
	// arithmetic (Int / Real) for the envelope mode
	OpRConst // rational constant, in rat
	OpRAdd
	OpRSub
	OpRMul
	OpRDiv
	OpRNeg
	OpRLe
	OpRLt
	OpToReal
	OpIDiv // integer floor division (SMT div)
	OpIMod
)

type SortKind uint8

const (
	KBool SortKind = iota
	KBV
	KInt
	KReal
)

type Sort struct {
	K SortKind
	W int
}

var BoolSort = Sort{KBool, 0}
var IntSort = Sort{KInt, 0}
var RealSort = Sort{KReal, 0}

func BV(w int) Sort { return Sort{KBV, w} }

func (s Sort) String() string {
	switch s.K {
	case KBool:
		return "Bool"
	case KBV:
		return fmt.Sprintf("(_ BitVec %d)", s.W)
	case KInt:
		return "Int"
	}
	return "Real"
}

type Term struct {
	id   int32
	op   Op
	sort Sort
	args []*Term
	val  uint64
	name string
	rat  *big.Rat
}

func (t *Term) IsConst() bool { return t.op == OpConst }
func (t *Term) IsTrue() bool  { return t.op == OpConst && t.sort.K == KBool && t.val == 1 }
func (t *Term) IsFalse() bool { return t.op == OpConst && t.sort.K == KBool && t.val == 0 }

type TermCtx struct {
	tab   map[string]*Term
	next  int32
	True  *Term
	False *Term
	vars  map[string]*Term
	ai    map[int32]*ainfo
	rsign map[int32]bool
}

func NewTermCtx() *TermCtx {
	c := &TermCtx{tab: map[string]*Term{}, vars: map[string]*Term{}}
	c.True = c.mk(OpConst, BoolSort, nil, 1, "")
	c.False = c.mk(OpConst, BoolSort, nil, 0, "")
	return c
}

func (c *TermCtx) mk(op Op, s Sort, args []*Term, val uint64, name string) *Term {
	var sb strings.Builder
	sb.Grow(32)
	fmt.Fprintf(&sb, "%d,%d,%d,%d,%s", op, s.K, s.W, val, name)
	for _, a := range args {
		fmt.Fprintf(&sb, ",%d", a.id)
	}
	k := sb.String()
	if t, ok := c.tab[k]; ok {
		return t
	}
	t := &Term{id: c.next, op: op, sort: s, args: args, val: val, name: name}
	c.next++
	c.tab[k] = t
	return t
}

func mask(w int) uint64 {
	if w >= 64 {
		return ^uint64(0)
	}
	return (uint64(1) << uint(w)) - 1
}

func sext64(v uint64, w int) int64 {
	if w >= 64 {
		return int64(v)
	}
	sh := uint(64 - w)
	return int64(v<<sh) >> sh
}

func (c *TermCtx) Const(w int, v uint64) *Term {
	return c.mk(OpConst, BV(w), nil, v&mask(w), "")
}

func (c *TermCtx) Bool(b bool) *Term {
	if b {
		return c.True
	}
	return c.False
}

func (c *TermCtx) Var(name string, s Sort) *Term {
	if t, ok := c.vars[name]; ok {
		if t.sort != s {
			panic("var " + name + " redeclared with different sort")
		}
		return t
	}
	t := c.mk(OpVar, s, nil, 0, name)
	c.vars[name] = t
	return t
}

// ub returns an unsigned upper bound of a bit-vector term (cheap, structural, bounded depth).
func (c *TermCtx) ub(t *Term, d int) uint64 {
	m := mask(t.sort.W)
	if t.IsConst() {
		return t.val
	}
	if d == 0 {
		return m
	}
	switch t.op {
	case OpZExt:
		return c.ub(t.args[0], d-1)
	case OpAnd:
		a, b := c.ub(t.args[0], d-1), c.ub(t.args[1], d-1)
		if a < b {
			return a
		}
		return b
	case OpAdd:
		a, b := c.ub(t.args[0], d-1), c.ub(t.args[1], d-1)
		if s := a + b; s >= a && s <= m {
			return s
		}
	case OpIte:
		a, b := c.ub(t.args[1], d-1), c.ub(t.args[2], d-1)
		if a > b {
			return a
		}
		return b
	case OpURem:
		if t.args[1].IsConst() && t.args[1].val > 0 {
			return t.args[1].val - 1
		}
	case OpLShr, OpUDiv:
		return c.ub(t.args[0], d-1)
	case OpMul:
		a, b := c.ub(t.args[0], d-1), c.ub(t.args[1], d-1)
		if hi, lo := bits.Mul64(a, b); hi == 0 && lo <= m {
			return lo
		}
	case OpConcat:
		lw := t.args[1].sort.W
		if t.sort.W <= 64 {
			a := c.ub(t.args[0], d-1)
			return a<<uint(lw) | mask(lw)
		}
	case OpExtract:
		if t.val&0xff == 0 {
			a := c.ub(t.args[0], d-1)
			if a < m {
				return a
			}
		}
	}
	return m
}

// ---- bit-vector construction with simplification ----

func (c *TermCtx) BinBV(op Op, a, b *Term) *Term {
	w := a.sort.W
	if a.sort != b.sort {
		panic(fmt.Sprintf("BinBV sort mismatch %v %v op %d", a.sort, b.sort, op))
	}
	if a.IsConst() && b.IsConst() {
		if v, ok := foldBV(op, w, a.val, b.val); ok {
			return c.Const(w, v)
		}
	}
	m := mask(w)
	switch op {
	case OpAdd:
		if a.IsConst() && a.val == 0 {
			return b
		}
		if b.IsConst() && b.val == 0 {
			return a
		}
		// sums are kept flattened, sorted by term id, constant last (a + b and b + a coincide)
		la, ka := c.sumLeaves(a)
		lb, kb := c.sumLeaves(b)
		if len(la)+len(lb) <= 4096 {
			return c.mkSum(mergeLeaves(la, lb), (ka+kb)&m, w)
		}
	case OpSub:
		if b.IsConst() && b.val == 0 {
			return a
		}
		if a == b {
			return c.Const(w, 0)
		}
		if b.IsConst() {
			return c.BinBV(OpAdd, a, c.Const(w, -b.val))
		}
		{
			// cancel common summands: (x + y) - x = y
			la, ka := c.sumLeaves(a)
			lb, kb := c.sumLeaves(b)
			ra, rb := cancelLeaves(la, lb)
			if len(ra) != len(la) || (len(rb) == 0) {
				sa := c.mkSum(ra, (ka-kb)&m, w)
				if len(rb) == 0 {
					return sa
				}
				return c.mk(OpSub, a.sort, []*Term{sa, c.mkSum(rb, 0, w)}, 0, "")
			}
		}
	case OpMul:
		if a.IsConst() {
			a, b = b, a
		}
		// distribute a constant factor over a (short) sum: (x + y) * k = x*k + y*k
		if b.IsConst() && a.op == OpAdd && b.val != 0 && b.val != 1 {
			la, ka := c.sumLeaves(a)
			if len(la) <= 16 {
				var acc *Term = c.Const(w, ka*b.val)
				for _, l := range la {
					acc = c.BinBV(OpAdd, acc, c.BinBV(OpMul, l, b))
				}
				return acc
			}
		}
		if b.IsConst() {
			if b.val == 0 {
				return b
			}
			if b.val == 1 {
				return a
			}
			if bits.OnesCount64(b.val) == 1 {
				return c.BinBV(OpShl, a, c.Const(w, uint64(bits.TrailingZeros64(b.val))))
			}
		}
	case OpUDiv:
		if b.IsConst() && b.val == 1 {
			return a
		}
		if q := c.exactQuot(a, b, w); q != nil {
			return q
		}
		if b.IsConst() && b.val != 0 && bits.OnesCount64(b.val) == 1 {
			return c.BinBV(OpLShr, a, c.Const(w, uint64(bits.TrailingZeros64(b.val))))
		}
	case OpURem:
		if b.IsConst() && b.val != 0 && bits.OnesCount64(b.val) == 1 {
			return c.BinBV(OpAnd, a, c.Const(w, b.val-1))
		}
	case OpSRem, OpSDiv:
		if op == OpSDiv && b.IsConst() && sext64(b.val, w) > 0 && c.ub(a, 40) < uint64(1)<<uint(w-1) {
			if q := c.exactQuot(a, b, w); q != nil {
				return q
			}
		}
		// signed division of a provably non-negative value by a positive constant is unsigned division
		if b.IsConst() && sext64(b.val, w) > 0 && c.ub(a, 40) < uint64(1)<<uint(w-1) {
			if op == OpSRem {
				return c.BinBV(OpURem, a, b)
			}
			return c.BinBV(OpUDiv, a, b)
		}
	case OpAnd:
		if a.IsConst() {
			a, b = b, a
		}
		if b.IsConst() {
			if b.val == 0 {
				return b
			}
			if b.val == m {
				return a
			}
			// x & (2^k - 1)  ==>  zero-extended low bits (lets the extract be pushed into sums)
			if k := bits.Len64(b.val); b.val == mask(k) && k < w && (a.op == OpAdd || a.op == OpSub || a.op == OpMul) {
				return c.ZExt(c.Extract(a, k-1, 0), w-k)
			}
			// and of a zero-extended value with a mask covering it
			if a.op == OpZExt {
				iw := a.args[0].sort.W
				if b.val&mask(iw) == mask(iw) {
					return a
				}
				return c.ZExt(c.BinBV(OpAnd, a.args[0], c.Const(iw, b.val)), w-iw)
			}
			if a.op == OpAnd && a.args[1].IsConst() {
				return c.BinBV(OpAnd, a.args[0], c.Const(w, a.args[1].val&b.val))
			}
			// (x | c1) & c2 = (x & c2) | (c1 & c2)
			if a.op == OpOr && a.args[1].IsConst() {
				return c.BinBV(OpOr, c.BinBV(OpAnd, a.args[0], b), c.Const(w, a.args[1].val&b.val))
			}
		}
		if a == b {
			return a
		}
	case OpOr:
		if a.IsConst() {
			a, b = b, a
		}
		if b.IsConst() {
			if b.val == 0 {
				return a
			}
			if b.val == m {
				return b
			}
			// (y & c1) | c2 with c1 ⊆ c2 is c2
			if a.op == OpAnd && a.args[1].IsConst() && a.args[1].val&^b.val == 0 {
				return b
			}
			if a.op == OpOr && a.args[1].IsConst() {
				return c.BinBV(OpOr, a.args[0], c.Const(w, a.args[1].val|b.val))
			}
		}
		if a == b {
			return a
		}
	case OpXor:
		if a.IsConst() {
			a, b = b, a
		}
		if b.IsConst() && b.val == 0 {
			return a
		}
		if a == b {
			return c.Const(w, 0)
		}
	case OpShl, OpLShr, OpAShr:
		if b.IsConst() {
			if b.val == 0 {
				return a
			}
			if b.val >= uint64(w) && op != OpAShr {
				return c.Const(w, 0)
			}
			if op == OpLShr {
				// lshr by constant = zero-extended extract
				k := int(b.val)
				return c.ZExt(c.Extract(a, w-1, k), k)
			}
			if op == OpShl {
				k := int(b.val)
				return c.Concat(c.Extract(a, w-1-k, 0), c.Const(k, 0))
			}
		}
		if a.IsConst() && a.val == 0 {
			return a
		}
	}
	return c.mk(op, a.sort, []*Term{a, b}, 0, "")
}

// exactQuot: (Σ xᵢ·k + c·k) / k = Σ xᵢ + c when the sum provably does not wrap (all summands multiples of k).
func (c *TermCtx) exactQuot(a, b *Term, w int) *Term {
	if !b.IsConst() || b.val < 2 || a.IsConst() {
		return nil
	}
	k := b.val
	if c.ub(a, 40) == mask(w) {
		return nil // possible wrap-around
	}
	leaves, cst := c.sumLeaves(a)
	if cst%k != 0 || len(leaves) == 0 {
		return nil
	}
	var acc *Term = c.Const(w, cst/k)
	for _, l := range leaves {
		if l.op != OpMul || !l.args[1].IsConst() || l.args[1].val%k != 0 {
			return nil
		}
		acc = c.BinBV(OpAdd, acc, c.BinBV(OpMul, l.args[0], c.Const(w, l.args[1].val/k)))
	}
	return acc
}

// sumLeaves flattens a tree of additions into its non-constant summands (sorted by id) and a constant.
func (c *TermCtx) sumLeaves(t *Term) ([]*Term, uint64) {
	if t.IsConst() {
		return nil, t.val
	}
	if t.op != OpAdd {
		return []*Term{t}, 0
	}
	// sums built by mkSum are left-nested with sorted leaves and the constant as the last operand
	var leaves []*Term
	var k uint64
	cur := t
	for cur.op == OpAdd {
		r := cur.args[1]
		if r.IsConst() {
			k += r.val
		} else {
			leaves = append(leaves, r)
		}
		cur = cur.args[0]
	}
	if cur.IsConst() {
		k += cur.val
	} else {
		leaves = append(leaves, cur)
	}
	// leaves were collected from the right: reverse to ascending id order
	for i, j := 0, len(leaves)-1; i < j; i, j = i+1, j-1 {
		leaves[i], leaves[j] = leaves[j], leaves[i]
	}
	sorted := true
	for i := 1; i < len(leaves); i++ {
		if leaves[i-1].id > leaves[i].id {
			sorted = false
			break
		}
	}
	if !sorted {
		sort.Slice(leaves, func(i, j int) bool { return leaves[i].id < leaves[j].id })
	}
	return leaves, k & mask(t.sort.W)
}

func mergeLeaves(a, b []*Term) []*Term {
	r := make([]*Term, 0, len(a)+len(b))
	i, j := 0, 0
	for i < len(a) && j < len(b) {
		if a[i].id <= b[j].id {
			r = append(r, a[i])
			i++
		} else {
			r = append(r, b[j])
			j++
		}
	}
	r = append(r, a[i:]...)
	r = append(r, b[j:]...)
	return r
}

// cancelLeaves removes the common elements (with multiplicity) of two sorted leaf lists.
func cancelLeaves(a, b []*Term) ([]*Term, []*Term) {
	var ra, rb []*Term
	i, j := 0, 0
	for i < len(a) && j < len(b) {
		switch {
		case a[i] == b[j]:
			i++
			j++
		case a[i].id < b[j].id:
			ra = append(ra, a[i])
			i++
		default:
			rb = append(rb, b[j])
			j++
		}
	}
	ra = append(ra, a[i:]...)
	rb = append(rb, b[j:]...)
	return ra, rb
}

func (c *TermCtx) mkSum(leaves []*Term, k uint64, w int) *Term {
	k &= mask(w)
	if len(leaves) == 0 {
		return c.Const(w, k)
	}
	acc := leaves[0]
	for _, l := range leaves[1:] {
		acc = c.mk(OpAdd, acc.sort, []*Term{acc, l}, 0, "")
	}
	if k != 0 {
		acc = c.mk(OpAdd, acc.sort, []*Term{acc, c.Const(w, k)}, 0, "")
	}
	return acc
}

func foldBV(op Op, w int, x, y uint64) (uint64, bool) {
	m := mask(w)
	switch op {
	case OpAdd:
		return (x + y) & m, true
	case OpSub:
		return (x - y) & m, true
	case OpMul:
		return (x * y) & m, true
	case OpUDiv:
		if y == 0 {
			return m, true
		}
		return x / y, true
	case OpURem:
		if y == 0 {
			return x, true
		}
		return x % y, true
	case OpSDiv:
		sx, sy := sext64(x, w), sext64(y, w)
		if sy == 0 {
			if sx < 0 {
				return 1, true
			}
			return m, true
		}
		if sy == -1 {
			return uint64(-sx) & m, true
		}
		return uint64(sx/sy) & m, true
	case OpSRem:
		sx, sy := sext64(x, w), sext64(y, w)
		if sy == 0 {
			return x, true
		}
		if sy == -1 {
			return 0, true
		}
		return uint64(sx%sy) & m, true
	case OpAnd:
		return x & y, true
	case OpOr:
		return x | y, true
	case OpXor:
		return x ^ y, true
	case OpShl:
		if y >= uint64(w) {
			return 0, true
		}
		return (x << y) & m, true
	case OpLShr:
		if y >= uint64(w) {
			return 0, true
		}
		return x >> y, true
	case OpAShr:
		sx := sext64(x, w)
		if y >= uint64(w) {
			y = uint64(w - 1)
		}
		if y > 63 {
			y = 63
		}
		return uint64(sx>>y) & m, true
	}
	return 0, false
}

func (c *TermCtx) Not(a *Term) *Term {
	if a.IsConst() {
		return c.Const(a.sort.W, ^a.val)
	}
	if a.op == OpNot {
		return a.args[0]
	}
	return c.mk(OpNot, a.sort, []*Term{a}, 0, "")
}

func (c *TermCtx) Neg(a *Term) *Term {
	if a.IsConst() {
		return c.Const(a.sort.W, -a.val)
	}
	return c.mk(OpNeg, a.sort, []*Term{a}, 0, "")
}

func (c *TermCtx) Extract(a *Term, hi, lo int) *Term {
	w := a.sort.W
	if lo == 0 && hi == w-1 {
		return a
	}
	if hi < lo || hi >= w {
		panic(fmt.Sprintf("bad extract %d %d of width %d", hi, lo, w))
	}
	nw := hi - lo + 1
	if a.IsConst() {
		return c.Const(nw, a.val>>uint(lo))
	}
	switch a.op {
	case OpExtract:
		ilo := int(a.val & 0xff)
		return c.Extract(a.args[0], hi+ilo, lo+ilo)
	case OpZExt:
		iw := a.args[0].sort.W
		if hi < iw {
			return c.Extract(a.args[0], hi, lo)
		}
		if lo >= iw {
			return c.Const(nw, 0)
		}
		return c.ZExt(c.Extract(a.args[0], iw-1, lo), hi-iw+1)
	case OpSExt:
		iw := a.args[0].sort.W
		if hi < iw {
			return c.Extract(a.args[0], hi, lo)
		}
	case OpConcat:
		lw := a.args[1].sort.W
		if hi < lw {
			return c.Extract(a.args[1], hi, lo)
		}
		if lo >= lw {
			return c.Extract(a.args[0], hi-lw, lo-lw)
		}
	case OpAnd, OpOr, OpXor:
		// push extract through bitwise ops when one side is constant (keeps masks small)
		if a.args[1].IsConst() || lo == 0 {
			return c.BinBV(a.op, c.Extract(a.args[0], hi, lo), c.Extract(a.args[1], hi, lo))
		}
	case OpAdd, OpSub, OpMul:
		// the low bits of a sum/difference/product depend only on the low bits of the operands
		if lo == 0 {
			return c.BinBV(a.op, c.Extract(a.args[0], hi, 0), c.Extract(a.args[1], hi, 0))
		}
	case OpNeg:
		if lo == 0 {
			return c.Neg(c.Extract(a.args[0], hi, 0))
		}
	case OpNot:
		return c.Not(c.Extract(a.args[0], hi, lo))
	case OpIte:
		if a.args[1].IsConst() || a.args[2].IsConst() {
			return c.Ite(a.args[0], c.Extract(a.args[1], hi, lo), c.Extract(a.args[2], hi, lo))
		}
	}
	return c.mk(OpExtract, BV(nw), []*Term{a}, uint64(hi)<<8|uint64(lo), "")
}

func (c *TermCtx) ZExt(a *Term, n int) *Term {
	if n == 0 {
		return a
	}
	if a.IsConst() {
		return c.Const(a.sort.W+n, a.val)
	}
	if a.op == OpZExt {
		return c.ZExt(a.args[0], n+int(a.val))
	}
	// widen sums and products that provably do not wrap: zext(x+y) = zext(x)+zext(y)
	if (a.op == OpAdd || a.op == OpMul) && a.sort.W+n <= 64 {
		x, y := c.ub(a.args[0], 40), c.ub(a.args[1], 40)
		fits := false
		if a.op == OpAdd {
			s := x + y
			fits = s >= x && s <= mask(a.sort.W)
		} else {
			hi, lo := bits.Mul64(x, y)
			fits = hi == 0 && lo <= mask(a.sort.W)
		}
		if fits {
			return c.BinBV(a.op, c.ZExt(a.args[0], n), c.ZExt(a.args[1], n))
		}
	}
	return c.mk(OpZExt, BV(a.sort.W+n), []*Term{a}, uint64(n), "")
}

func (c *TermCtx) SExt(a *Term, n int) *Term {
	if n == 0 {
		return a
	}
	if a.IsConst() {
		return c.Const(a.sort.W+n, uint64(sext64(a.val, a.sort.W)))
	}
	if a.op == OpZExt { // sign bit known zero
		return c.ZExt(a.args[0], n+int(a.val))
	}
	if c.ub(a, 40) < uint64(1)<<uint(a.sort.W-1) { // sign bit provably zero
		return c.ZExt(a, n)
	}
	return c.mk(OpSExt, BV(a.sort.W+n), []*Term{a}, uint64(n), "")
}

func (c *TermCtx) Concat(hi, lo *Term) *Term {
	if hi.IsConst() && lo.IsConst() && hi.sort.W+lo.sort.W <= 64 {
		return c.Const(hi.sort.W+lo.sort.W, hi.val<<uint(lo.sort.W)|lo.val)
	}
	if hi.IsConst() && hi.val == 0 {
		return c.ZExt(lo, hi.sort.W)
	}
	return c.mk(OpConcat, BV(hi.sort.W+lo.sort.W), []*Term{hi, lo}, 0, "")
}

// Resize converts a to width w, extending by signedness.
func (c *TermCtx) Resize(a *Term, w int, signed bool) *Term {
	aw := a.sort.W
	switch {
	case w == aw:
		return a
	case w < aw:
		return c.Extract(a, w-1, 0)
	case signed:
		return c.SExt(a, w-aw)
	}
	return c.ZExt(a, w-aw)
}

// ---- comparisons ----

func (c *TermCtx) Eq(a, b *Term) *Term {
	if a == b {
		return c.True
	}
	if a.sort.K == KInt && b.sort.K == KReal {
		a = c.ToReal(a)
	} else if a.sort.K == KReal && b.sort.K == KInt {
		b = c.ToReal(b)
	}
	if a.op == OpRConst && b.op == OpRConst {
		return c.Bool(a.rat.Cmp(b.rat) == 0)
	}
	if a.sort != b.sort {
		panic(fmt.Sprintf("Eq sort mismatch %v %v", a.sort, b.sort))
	}
	if a.IsConst() && b.IsConst() {
		return c.Bool(a.val == b.val)
	}
	if a.sort.K == KBool {
		if a.IsConst() {
			a, b = b, a
		}
		if b.IsTrue() {
			return a
		}
		if b.IsFalse() {
			return c.BNot(a)
		}
	}
	if a.IsConst() {
		a, b = b, a
	}
	if b.IsConst() && a.sort.K == KBV {
		switch a.op {
		case OpZExt:
			iw := a.args[0].sort.W
			if b.val>>uint(iw) != 0 {
				return c.False
			}
			return c.Eq(a.args[0], c.Const(iw, b.val))
		case OpIte:
			// (ite p c1 c2) == c
			t, e := a.args[1], a.args[2]
			if t.IsConst() && e.IsConst() {
				switch {
				case t.val == b.val && e.val == b.val:
					return c.True
				case t.val == b.val:
					return a.args[0]
				case e.val == b.val:
					return c.BNot(a.args[0])
				default:
					return c.False
				}
			}
			if t.IsConst() {
				if t.val == b.val {
					return c.BOr(a.args[0], c.Eq(e, b))
				}
				return c.BAnd(c.BNot(a.args[0]), c.Eq(e, b))
			}
			if e.IsConst() {
				if e.val == b.val {
					return c.BOr(c.BNot(a.args[0]), c.Eq(t, b))
				}
				return c.BAnd(a.args[0], c.Eq(t, b))
			}
		case OpConcat:
			lw := a.args[1].sort.W
			return c.BAnd(c.Eq(a.args[0], c.Const(a.args[0].sort.W, b.val>>uint(lw))), c.Eq(a.args[1], c.Const(lw, b.val)))
		case OpAdd:
			if a.args[1].IsConst() {
				return c.Eq(a.args[0], c.Const(a.sort.W, b.val-a.args[1].val))
			}
		case OpXor:
			if a.args[1].IsConst() {
				return c.Eq(a.args[0], c.Const(a.sort.W, b.val^a.args[1].val))
			}
		}
	}
	if a.sort.K == KBV && (a.op == OpAdd || b.op == OpAdd) {
		// cancel common summands on both sides: x + y == x + z  <=>  y == z
		la, ka := c.sumLeaves(a)
		lb, kb := c.sumLeaves(b)
		ra, rb := cancelLeaves(la, lb)
		if len(ra) != len(la) {
			w := a.sort.W
			return c.Eq(c.mkSum(ra, ka, w), c.mkSum(rb, kb, w))
		}
	}
	if a.id > b.id && !b.IsConst() {
		a, b = b, a
	}
	return c.mk(OpEq, BoolSort, []*Term{a, b}, 0, "")
}

func (c *TermCtx) Cmp(op Op, a, b *Term) *Term {
	if a.sort != b.sort {
		panic(fmt.Sprintf("Cmp sort mismatch %v %v", a.sort, b.sort))
	}
	w := a.sort.W
	if a.IsConst() && b.IsConst() {
		switch op {
		case OpUlt:
			return c.Bool(a.val < b.val)
		case OpUle:
			return c.Bool(a.val <= b.val)
		case OpSlt:
			return c.Bool(sext64(a.val, w) < sext64(b.val, w))
		case OpSle:
			return c.Bool(sext64(a.val, w) <= sext64(b.val, w))
		}
	}
	if a == b {
		return c.Bool(op == OpUle || op == OpSle)
	}
	switch op {
	case OpUlt:
		if b.IsConst() && b.val == 0 {
			return c.False
		}
		if a.IsConst() && a.val == mask(w) {
			return c.False
		}
	case OpUle:
		if a.IsConst() && a.val == 0 {
			return c.True
		}
		if b.IsConst() && b.val == mask(w) {
			return c.True
		}
	}
	// comparisons of zero-extended values against constants / each other: narrow
	if (op == OpUlt || op == OpUle) && a.op == OpZExt && b.IsConst() {
		iw := a.args[0].sort.W
		if b.val > mask(iw) {
			return c.True
		}
		return c.Cmp(op, a.args[0], c.Const(iw, b.val))
	}
	if (op == OpUlt || op == OpUle) && b.op == OpZExt && a.IsConst() {
		iw := b.args[0].sort.W
		if a.val > mask(iw) {
			return c.False
		}
		return c.Cmp(op, c.Const(iw, a.val), b.args[0])
	}
	if (op == OpSlt || op == OpSle) && a.op == OpZExt && b.IsConst() {
		// a is non-negative and < 2^iw
		iw := a.args[0].sort.W
		sb := sext64(b.val, w)
		if sb < 0 {
			return c.False
		}
		if uint64(sb) > mask(iw) {
			return c.True
		}
		uop := OpUlt
		if op == OpSle {
			uop = OpUle
		}
		return c.Cmp(uop, a.args[0], c.Const(iw, uint64(sb)))
	}
	if (op == OpSlt || op == OpSle) && b.op == OpZExt && a.IsConst() {
		iw := b.args[0].sort.W
		sa := sext64(a.val, w)
		if sa < 0 {
			return c.True
		}
		if uint64(sa) > mask(iw) {
			return c.False
		}
		uop := OpUlt
		if op == OpSle {
			uop = OpUle
		}
		return c.Cmp(uop, c.Const(iw, uint64(sa)), b.args[0])
	}
	if a.op == OpZExt && b.op == OpZExt && a.args[0].sort == b.args[0].sort {
		uop := op
		if op == OpSlt {
			uop = OpUlt
		} else if op == OpSle {
			uop = OpUle
		}
		return c.Cmp(uop, a.args[0], b.args[0])
	}
	return c.mk(op, BoolSort, []*Term{a, b}, 0, "")
}

// ---- booleans ----

func (c *TermCtx) BNot(a *Term) *Term {
	if a.IsTrue() {
		return c.False
	}
	if a.IsFalse() {
		return c.True
	}
	if a.op == OpBNot {
		return a.args[0]
	}
	return c.mk(OpBNot, BoolSort, []*Term{a}, 0, "")
}

func (c *TermCtx) BAnd(a, b *Term) *Term {
	if a.IsFalse() || b.IsFalse() {
		return c.False
	}
	if a.IsTrue() {
		return b
	}
	if b.IsTrue() {
		return a
	}
	if a == b {
		return a
	}
	if (a.op == OpBNot && a.args[0] == b) || (b.op == OpBNot && b.args[0] == a) {
		return c.False
	}
	return c.mk(OpBAnd, BoolSort, []*Term{a, b}, 0, "")
}

func (c *TermCtx) BOr(a, b *Term) *Term {
	if a.IsTrue() || b.IsTrue() {
		return c.True
	}
	if a.IsFalse() {
		return b
	}
	if b.IsFalse() {
		return a
	}
	if a == b {
		return a
	}
	if (a.op == OpBNot && a.args[0] == b) || (b.op == OpBNot && b.args[0] == a) {
		return c.True
	}
	return c.mk(OpBOr, BoolSort, []*Term{a, b}, 0, "")
}

func (c *TermCtx) Ite(p, a, b *Term) *Term {
	if p.IsTrue() {
		return a
	}
	if p.IsFalse() {
		return b
	}
	if a == b {
		return a
	}
	if a.sort != b.sort {
		panic(fmt.Sprintf("Ite sort mismatch %v %v", a.sort, b.sort))
	}
	if a.sort.K == KBool {
		if a.IsTrue() && b.IsFalse() {
			return p
		}
		if a.IsFalse() && b.IsTrue() {
			return c.BNot(p)
		}
		if a.IsTrue() {
			return c.BOr(p, b)
		}
		if a.IsFalse() {
			return c.BAnd(c.BNot(p), b)
		}
		if b.IsTrue() {
			return c.BOr(c.BNot(p), a)
		}
		if b.IsFalse() {
			return c.BAnd(p, a)
		}
	}
	if p.op == OpBNot {
		return c.Ite(p.args[0], b, a)
	}
	return c.mk(OpIte, a.sort, []*Term{p, a, b}, 0, "")
}

// BoolToBV1 etc. are not needed: Go bools stay Bool-sorted.

// ---- evaluation under a model (vars by name; missing vars = 0) ----

type Model map[string]uint64

type evaluator struct {
	m    Model
	memo map[int32]uint64
}

func Eval(t *Term, m Model) uint64 {
	ev := evaluator{m: m, memo: map[int32]uint64{}}
	return ev.eval(t)
}

func (ev *evaluator) eval(t *Term) uint64 {
	switch t.op {
	case OpConst:
		return t.val
	case OpVar:
		return ev.m[t.name] & maskSort(t.sort)
	}
	if v, ok := ev.memo[t.id]; ok {
		return v
	}
	var r uint64
	switch t.op {
	case OpAdd, OpSub, OpMul, OpUDiv, OpURem, OpSDiv, OpSRem, OpAnd, OpOr, OpXor, OpShl, OpLShr, OpAShr:
		r, _ = foldBV(t.op, t.sort.W, ev.eval(t.args[0]), ev.eval(t.args[1]))
	case OpNot:
		r = ^ev.eval(t.args[0]) & mask(t.sort.W)
	case OpNeg:
		r = -ev.eval(t.args[0]) & mask(t.sort.W)
	case OpConcat:
		r = ev.eval(t.args[0])<<uint(t.args[1].sort.W) | ev.eval(t.args[1])
	case OpExtract:
		hi, lo := int(t.val>>8), int(t.val&0xff)
		r = (ev.eval(t.args[0]) >> uint(lo)) & mask(hi-lo+1)
	case OpZExt:
		r = ev.eval(t.args[0])
	case OpSExt:
		r = uint64(sext64(ev.eval(t.args[0]), t.args[0].sort.W)) & mask(t.sort.W)
	case OpEq:
		r = b2u(ev.eval(t.args[0]) == ev.eval(t.args[1]))
	case OpUlt:
		r = b2u(ev.eval(t.args[0]) < ev.eval(t.args[1]))
	case OpUle:
		r = b2u(ev.eval(t.args[0]) <= ev.eval(t.args[1]))
	case OpSlt:
		w := t.args[0].sort.W
		r = b2u(sext64(ev.eval(t.args[0]), w) < sext64(ev.eval(t.args[1]), w))
	case OpSle:
		w := t.args[0].sort.W
		r = b2u(sext64(ev.eval(t.args[0]), w) <= sext64(ev.eval(t.args[1]), w))
	case OpBAnd:
		r = ev.eval(t.args[0]) & ev.eval(t.args[1])
	case OpBOr:
		r = ev.eval(t.args[0]) | ev.eval(t.args[1])
	case OpBNot:
		r = 1 - ev.eval(t.args[0])
	case OpIte:
		if ev.eval(t.args[0]) == 1 {
			r = ev.eval(t.args[1])
		} else {
			r = ev.eval(t.args[2])
		}
	default:
		panic(fmt.Sprintf("eval: unsupported op %d", t.op))
	}
	ev.memo[t.id] = r
	return r
}

func maskSort(s Sort) uint64 {
	if s.K == KBool {
		return 1
	}
	return mask(s.W)
}

func b2u(b bool) uint64 {
	if b {
		return 1
	}
	return 0
}

// HasArith reports whether the term uses Int/Real operators (not evaluable by Eval).
func (t *Term) HasArith() bool {
	return t.sort.K == KInt || t.sort.K == KReal || t.op >= OpRConst
}

// ---- SMT-LIB printing ----

func quoteName(n string) string { return "|" + n + "|" }

func bvLit(w int, v uint64) string {
	if w%4 == 0 {
		return fmt.Sprintf("#x%0*x", w/4, v)
	}
	return fmt.Sprintf("#b%0*b", w, v)
}

var opNames = map[Op]string{
	OpAdd: "bvadd", OpSub: "bvsub", OpMul: "bvmul", OpUDiv: "bvudiv", OpURem: "bvurem", OpSDiv: "bvsdiv",
	OpSRem: "bvsrem", OpAnd: "bvand", OpOr: "bvor", OpXor: "bvxor", OpNot: "bvnot", OpNeg: "bvneg",
	OpShl: "bvshl", OpLShr: "bvlshr", OpAShr: "bvashr", OpConcat: "concat", OpEq: "=", OpUlt: "bvult",
	OpUle: "bvule", OpSlt: "bvslt", OpSle: "bvsle", OpBAnd: "and", OpBOr: "or", OpBNot: "not", OpIte: "ite",
	OpRAdd: "+", OpRSub: "-", OpRMul: "*", OpRDiv: "/", OpRNeg: "-", OpRLe: "<=", OpRLt: "<", OpToReal: "to_real",
	OpIDiv: "div", OpIMod: "mod",
}

// ref returns the text by which t is referred to inside other terms.
func termRef(t *Term) string {
	switch t.op {
	case OpConst:
		if t.sort.K == KBool {
			if t.val == 1 {
				return "true"
			}
			return "false"
		}
		return bvLit(t.sort.W, t.val)
	case OpVar:
		return quoteName(t.name)
	case OpRConst:
		return ratLit(t.rat, t.sort.K == KInt)
	}
	return fmt.Sprintf("t%d", t.id)
}

func ratLit(r *big.Rat, isInt bool) string {
	neg := r.Sign() < 0
	a := new(big.Rat).Abs(r)
	var s string
	if isInt {
		s = a.Num().String()
	} else if a.IsInt() {
		s = a.Num().String() + ".0"
	} else {
		s = "(/ " + a.Num().String() + ".0 " + a.Denom().String() + ".0)"
	}
	if neg {
		return "(- " + s + ")"
	}
	return s
}

// termBody prints the defining expression of a non-leaf term using refs for its arguments.
func termBody(t *Term) string {
	var sb strings.Builder
	switch t.op {
	case OpExtract:
		fmt.Fprintf(&sb, "((_ extract %d %d) %s)", t.val>>8, t.val&0xff, termRef(t.args[0]))
		return sb.String()
	case OpZExt:
		fmt.Fprintf(&sb, "((_ zero_extend %d) %s)", t.val, termRef(t.args[0]))
		return sb.String()
	case OpSExt:
		fmt.Fprintf(&sb, "((_ sign_extend %d) %s)", t.val, termRef(t.args[0]))
		return sb.String()
	}
	n, ok := opNames[t.op]
	if !ok {
		panic(fmt.Sprintf("termBody: op %d", t.op))
	}
	sb.WriteString("(")
	sb.WriteString(n)
	for _, a := range t.args {
		sb.WriteString(" ")
		sb.WriteString(termRef(a))
	}
	sb.WriteString(")")
	return sb.String()
}

// String renders a term fully inlined (for diagnostics; bounded depth).
func (t *Term) String() string { return t.str(6) }

func (t *Term) str(d int) string {
	switch t.op {
	case OpConst, OpVar, OpRConst:
		return termRef(t)
	}
	if d == 0 {
		return "…"
	}
	var sb strings.Builder
	switch t.op {
	case OpExtract:
		fmt.Fprintf(&sb, "(extract[%d:%d] %s)", t.val>>8, t.val&0xff, t.args[0].str(d-1))
		return sb.String()
	case OpZExt:
		fmt.Fprintf(&sb, "(zext%d %s)", t.val, t.args[0].str(d-1))
		return sb.String()
	case OpSExt:
		fmt.Fprintf(&sb, "(sext%d %s)", t.val, t.args[0].str(d-1))
		return sb.String()
	}
	sb.WriteString("(" + opNames[t.op])
	for _, a := range t.args {
		sb.WriteString(" " + a.str(d-1))
	}
	sb.WriteString(")")
	return sb.String()
}
