package main

// Arithmetic ("envelope") mode: Go integers as SMT Ints with their machine range, float64 operations as
// exact real operations followed by a relative rounding error |e| <= 2^-53 (IEEE-754 round to nearest,
// no overflow / underflow: checked as side obligations).

import (
	"fmt"
	"go/token"
	"go/types"
	"math"
	"math/big"

	"golang.org/x/tools/go/ssa"
)

type ainfo struct {
	lo, hi *big.Int // nil = unbounded
	tz     uint     // value is a multiple of 2^tz
}

func (c *TermCtx) info(t *Term) *ainfo {
	if c.ai == nil {
		c.ai = map[int32]*ainfo{}
	}
	if a, ok := c.ai[t.id]; ok {
		return a
	}
	a := &ainfo{}
	if t.op == OpRConst && t.rat.IsInt() {
		a.lo, a.hi = t.rat.Num(), t.rat.Num()
		if t.rat.Sign() == 0 {
			a.tz = 64
		} else {
			a.tz = t.rat.Num().TrailingZeroBits()
		}
	}
	c.ai[t.id] = a
	return a
}

// nonNegReal: structural proof that a Real term is >= 0.
func (c *TermCtx) nonNegReal(t *Term) bool {
	if c.rsign != nil && c.rsign[t.id] {
		return true
	}
	switch t.op {
	case OpRConst:
		return t.rat.Sign() >= 0
	case OpToReal:
		in := c.info(t.args[0])
		return in.lo != nil && in.lo.Sign() >= 0
	case OpRMul, OpRDiv, OpRAdd:
		return c.nonNegReal(t.args[0]) && c.nonNegReal(t.args[1])
	}
	return false
}

func (c *TermCtx) markNonNeg(t *Term) {
	if c.rsign == nil {
		c.rsign = map[int32]bool{}
	}
	c.rsign[t.id] = true
}

func (c *TermCtx) setInfo(t *Term, lo, hi *big.Int, tz uint) {
	if c.ai == nil {
		c.ai = map[int32]*ainfo{}
	}
	if _, ok := c.ai[t.id]; ok && t.op != OpVar {
		return
	}
	c.ai[t.id] = &ainfo{lo: lo, hi: hi, tz: tz}
}

func (c *TermCtx) ratConst(r *big.Rat, s Sort) *Term {
	t := c.mk(OpRConst, s, nil, 0, r.RatString())
	if t.rat == nil {
		t.rat = new(big.Rat).Set(r)
	}
	return t
}

func (c *TermCtx) IntConst(v int64) *Term { return c.ratConst(new(big.Rat).SetInt64(v), IntSort) }
func (c *TermCtx) IntConstU(v uint64) *Term {
	return c.ratConst(new(big.Rat).SetInt(new(big.Int).SetUint64(v)), IntSort)
}
func (c *TermCtx) IntConstBig(v *big.Int) *Term { return c.ratConst(new(big.Rat).SetInt(v), IntSort) }
func (c *TermCtx) RealConstInt(v int64) *Term   { return c.ratConst(new(big.Rat).SetInt64(v), RealSort) }
func (c *TermCtx) RealConstF(f float64) *Term {
	r := new(big.Rat)
	if r.SetFloat64(f) == nil {
		panic(pathEnd{"unsupported", "non-finite float constant in arithmetic mode"})
	}
	return c.ratConst(r, RealSort)
}
func (c *TermCtx) RealConstRat(r *big.Rat) *Term { return c.ratConst(r, RealSort) }

func (c *TermCtx) ToReal(t *Term) *Term {
	if t.sort.K == KReal {
		return t
	}
	if t.op == OpRConst {
		return c.ratConst(t.rat, RealSort)
	}
	return c.mk(OpToReal, RealSort, []*Term{t}, 0, "")
}

// RBin builds + - * / div mod over Int / Real.
func (c *TermCtx) RBin(op Op, a, b *Term) *Term {
	s := IntSort
	if a.sort.K == KReal || b.sort.K == KReal || op == OpRDiv {
		s = RealSort
		a, b = c.ToReal(a), c.ToReal(b)
	}
	if a.op == OpRConst && b.op == OpRConst {
		r := new(big.Rat)
		switch op {
		case OpRAdd:
			return c.ratConst(r.Add(a.rat, b.rat), s)
		case OpRSub:
			return c.ratConst(r.Sub(a.rat, b.rat), s)
		case OpRMul:
			return c.ratConst(r.Mul(a.rat, b.rat), s)
		case OpRDiv:
			if b.rat.Sign() != 0 {
				return c.ratConst(r.Quo(a.rat, b.rat), s)
			}
		case OpIDiv, OpIMod:
			if b.rat.Sign() > 0 {
				q, m := new(big.Int).DivMod(a.rat.Num(), b.rat.Num(), new(big.Int))
				if op == OpIDiv {
					return c.IntConstBig(q)
				}
				return c.IntConstBig(m)
			}
		}
	}
	isZero := func(t *Term) bool { return t.op == OpRConst && t.rat.Sign() == 0 }
	isOne := func(t *Term) bool { return t.op == OpRConst && t.rat.Cmp(big.NewRat(1, 1)) == 0 }
	switch op {
	case OpRAdd:
		if isZero(a) {
			return b
		}
		if isZero(b) {
			return a
		}
	case OpRSub:
		if isZero(b) {
			return a
		}
		if a == b {
			return c.ratConst(new(big.Rat), s)
		}
	case OpRMul:
		if isZero(a) || isZero(b) {
			return c.ratConst(new(big.Rat), s)
		}
		if isOne(a) {
			return b
		}
		if isOne(b) {
			return a
		}
	case OpRDiv, OpIDiv:
		if isOne(b) {
			return a
		}
	}
	t := c.mk(op, s, []*Term{a, b}, 0, "")
	if s.K == KInt {
		c.computeInfo(t)
	}
	return t
}

func minmax4(a, b, c2, d *big.Int) (*big.Int, *big.Int) {
	lo, hi := a, a
	for _, x := range []*big.Int{b, c2, d} {
		if x.Cmp(lo) < 0 {
			lo = x
		}
		if x.Cmp(hi) > 0 {
			hi = x
		}
	}
	return lo, hi
}

func (c *TermCtx) computeInfo(t *Term) {
	if c.ai == nil {
		c.ai = map[int32]*ainfo{}
	}
	if _, ok := c.ai[t.id]; ok {
		return
	}
	r := &ainfo{}
	switch t.op {
	case OpRAdd, OpRSub, OpRMul, OpIDiv, OpIMod:
		x, y := c.info(t.args[0]), c.info(t.args[1])
		bounded := x.lo != nil && x.hi != nil && y.lo != nil && y.hi != nil
		switch t.op {
		case OpRAdd:
			if bounded {
				r.lo, r.hi = new(big.Int).Add(x.lo, y.lo), new(big.Int).Add(x.hi, y.hi)
			}
			r.tz = minu(x.tz, y.tz)
		case OpRSub:
			if bounded {
				r.lo, r.hi = new(big.Int).Sub(x.lo, y.hi), new(big.Int).Sub(x.hi, y.lo)
			}
			r.tz = minu(x.tz, y.tz)
		case OpRMul:
			if bounded {
				p1, p2 := new(big.Int).Mul(x.lo, y.lo), new(big.Int).Mul(x.lo, y.hi)
				p3, p4 := new(big.Int).Mul(x.hi, y.lo), new(big.Int).Mul(x.hi, y.hi)
				r.lo, r.hi = minmax4(p1, p2, p3, p4)
			}
			r.tz = x.tz + y.tz
			if r.tz > 64 {
				r.tz = 64
			}
		case OpIDiv:
			if bounded && y.lo.Sign() > 0 && x.lo.Sign() >= 0 {
				r.lo = new(big.Int).Div(x.lo, y.hi)
				r.hi = new(big.Int).Div(x.hi, y.lo)
			}
		case OpIMod:
			if y.lo != nil && y.hi != nil && y.lo.Sign() > 0 {
				r.lo = big.NewInt(0)
				r.hi = new(big.Int).Sub(y.hi, big.NewInt(1))
				if bounded && x.lo.Sign() >= 0 && x.hi.Cmp(r.hi) < 0 {
					r.hi = x.hi
				}
			}
		}
	case OpIte:
		x, y := c.info(t.args[1]), c.info(t.args[2])
		if x.lo != nil && y.lo != nil {
			r.lo = x.lo
			if y.lo.Cmp(r.lo) < 0 {
				r.lo = y.lo
			}
		}
		if x.hi != nil && y.hi != nil {
			r.hi = x.hi
			if y.hi.Cmp(r.hi) > 0 {
				r.hi = y.hi
			}
		}
		r.tz = minu(x.tz, y.tz)
	}
	c.ai[t.id] = r
}

func minu(a, b uint) uint {
	if a < b {
		return a
	}
	return b
}

// RCmpRaw builds the comparison without interval-based folding (used for the defining range constraints of variables).
func (c *TermCtx) RCmpRaw(op Op, a, b *Term) *Term {
	if a.sort.K == KReal || b.sort.K == KReal {
		a, b = c.ToReal(a), c.ToReal(b)
	}
	return c.mk(op, BoolSort, []*Term{a, b}, 0, "")
}

func (c *TermCtx) RCmp(op Op, a, b *Term) *Term {
	if a.sort.K == KReal || b.sort.K == KReal {
		a, b = c.ToReal(a), c.ToReal(b)
	}
	if a.op == OpRConst && b.op == OpRConst {
		k := a.rat.Cmp(b.rat)
		if op == OpRLt {
			return c.Bool(k < 0)
		}
		return c.Bool(k <= 0)
	}
	if a.sort.K == KInt {
		x, y := c.info(a), c.info(b)
		if x.hi != nil && y.lo != nil {
			k := x.hi.Cmp(y.lo)
			if (op == OpRLt && k < 0) || (op == OpRLe && k <= 0) {
				return c.True
			}
		}
		if x.lo != nil && y.hi != nil {
			k := x.lo.Cmp(y.hi)
			if (op == OpRLt && k >= 0) || (op == OpRLe && k > 0) {
				return c.False
			}
		}
	}
	if a == b {
		return c.Bool(op == OpRLe)
	}
	return c.mk(op, BoolSort, []*Term{a, b}, 0, "")
}

// ---- Exec side ----

func typeRange(e *Exec, t types.Type) (*big.Int, *big.Int) {
	w := uint(e.width(t))
	one := big.NewInt(1)
	if isSigned(t) {
		hi := new(big.Int).Lsh(one, w-1)
		lo := new(big.Int).Neg(hi)
		return lo, hi.Sub(hi, one)
	}
	hi := new(big.Int).Lsh(one, w)
	return big.NewInt(0), hi.Sub(hi, one)
}

// arithWrap brings an Int term into the range of Go type t (two's complement wrap-around).
func (e *Exec) arithWrap(t *Term, ty types.Type) *Term {
	c := e.ctx
	lo, hi := typeRange(e, ty)
	in := c.info(t)
	if in.lo != nil && in.hi != nil && in.lo.Cmp(lo) >= 0 && in.hi.Cmp(hi) <= 0 {
		return t
	}
	w := uint(e.width(ty))
	mod := c.IntConstBig(new(big.Int).Lsh(big.NewInt(1), w))
	if !isSigned(ty) {
		return c.RBin(OpIMod, t, mod)
	}
	off := c.IntConstBig(new(big.Int).Neg(lo))
	return c.RBin(OpRSub, c.RBin(OpIMod, c.RBin(OpRAdd, t, off), mod), off)
}

func (e *Exec) bvToInt(t *Term, signed bool) *Term {
	if t.IsConst() {
		if signed {
			return e.ctx.IntConst(sext64(t.val, t.sort.W))
		}
		return e.ctx.IntConstU(t.val)
	}
	e.unsupported("bit-vector term in arithmetic mode")
	return nil
}

func (e *Exec) arithBinop(ins ssa.Instruction, op token.Token, x, y *Term, ta, tb types.Type) (Value, *GoPanic) {
	c := e.ctx
	if x.sort.K != KInt {
		x = e.bvToInt(x, isSigned(ta))
	}
	if y.sort.K != KInt {
		y = e.bvToInt(y, isSigned(tb))
	}
	pow2 := func(t *Term) (uint, bool) {
		if t.op == OpRConst && t.rat.IsInt() && t.rat.Sign() >= 0 && t.rat.Num().IsUint64() {
			return uint(t.rat.Num().Uint64()), true
		}
		return 0, false
	}
	nonneg := func(t *Term) bool { in := c.info(t); return in.lo != nil && in.lo.Sign() >= 0 }
	// both operands concrete: compute with machine integers of the operand type
	if x.op == OpRConst && y.op == OpRConst && x.rat.IsInt() && y.rat.IsInt() {
		w := e.width(ta)
		xv, yv := new(big.Int).And(x.rat.Num(), new(big.Int).SetUint64(mask(w))).Uint64(), new(big.Int).And(y.rat.Num(), new(big.Int).SetUint64(mask(e.width(tb)))).Uint64()
		if x.rat.Sign() < 0 {
			xv = uint64(x.rat.Num().Int64()) & mask(w)
		}
		if y.rat.Sign() < 0 {
			yv = uint64(y.rat.Num().Int64()) & mask(e.width(tb))
		}
		var o Op = OpConst
		signed := isSigned(ta)
		switch op {
		case token.AND:
			o = OpAnd
		case token.OR:
			o = OpOr
		case token.XOR:
			o = OpXor
		case token.AND_NOT:
			o, yv = OpAnd, ^yv&mask(w)
		case token.SHL:
			o = OpShl
		case token.SHR:
			o = OpLShr
			if signed {
				o = OpAShr
			}
		}
		if o != OpConst {
			if r, ok := foldBV(o, w, xv, yv); ok {
				if signed {
					return c.IntConst(sext64(r, w)), nil
				}
				return c.IntConstU(r), nil
			}
		}
	}
	switch op {
	case token.EQL, token.NEQ, token.LSS, token.LEQ, token.GTR, token.GEQ:
		return e.cmpOp(op, true, x, y), nil
	case token.ADD:
		return e.arithWrap(c.RBin(OpRAdd, x, y), ta), nil
	case token.SUB:
		return e.arithWrap(c.RBin(OpRSub, x, y), ta), nil
	case token.MUL:
		return e.arithWrap(c.RBin(OpRMul, x, y), ta), nil
	case token.QUO, token.REM:
		if e.branch(c.Eq(y, c.IntConst(0)), ins) {
			return nil, e.runtimePanic(ins, "integer divide by zero")
		}
		if nonneg(x) && nonneg(y) {
			if op == token.QUO {
				return c.RBin(OpIDiv, x, y), nil
			}
			return c.RBin(OpIMod, x, y), nil
		}
		// truncated division via sign cases
		zero := c.IntConst(0)
		ax := c.Ite(c.RCmp(OpRLt, x, zero), c.RBin(OpRSub, zero, x), x)
		ay := c.Ite(c.RCmp(OpRLt, y, zero), c.RBin(OpRSub, zero, y), y)
		q := c.RBin(OpIDiv, ax, ay)
		neg := c.BNot(c.Eq(c.RCmp(OpRLt, x, zero), c.RCmp(OpRLt, y, zero)))
		qs := c.Ite(neg, c.RBin(OpRSub, zero, q), q)
		if op == token.QUO {
			return e.arithWrap(qs, ta), nil
		}
		return c.RBin(OpRSub, x, c.RBin(OpRMul, qs, y)), nil
	case token.SHL:
		if k, ok := pow2(y); ok && k < 64 {
			return e.arithWrap(c.RBin(OpRMul, x, c.IntConstBig(new(big.Int).Lsh(big.NewInt(1), k))), ta), nil
		}
	case token.SHR:
		if k, ok := pow2(y); ok && k < 64 && nonneg(x) {
			return c.RBin(OpIDiv, x, c.IntConstBig(new(big.Int).Lsh(big.NewInt(1), k))), nil
		}
	case token.AND:
		// x & (2^k - 1)
		for _, pr := range [][2]*Term{{x, y}, {y, x}} {
			if pr[1].op == OpRConst && pr[1].rat.IsInt() {
				m := new(big.Int).Add(pr[1].rat.Num(), big.NewInt(1))
				if m.Sign() > 0 && m.TrailingZeroBits() == uint(m.BitLen()-1) && nonneg(pr[0]) {
					return c.RBin(OpIMod, pr[0], c.IntConstBig(m)), nil
				}
			}
		}
	case token.OR, token.XOR:
		// disjoint bit ranges: x multiple of 2^k, 0 <= y < 2^k
		for _, pr := range [][2]*Term{{x, y}, {y, x}} {
			a, b := c.info(pr[0]), c.info(pr[1])
			if b.lo != nil && b.hi != nil && b.lo.Sign() >= 0 && a.lo != nil && a.lo.Sign() >= 0 {
				if a.tz >= uint(b.hi.BitLen()) {
					return e.arithWrap(c.RBin(OpRAdd, pr[0], pr[1]), ta), nil
				}
			}
		}
	}
	e.unsupported("integer op %s not expressible in arithmetic mode at %s", op, e.posOf(ins))
	return nil, nil
}

var two53 = new(big.Int).Lsh(big.NewInt(1), 53)

// rounded models one IEEE-754 rounding: result = exact + delta with |delta| <= 2^-53 * |exact|
// (linear in exact, which keeps the solver's job to the genuinely non-linear parts).
func (e *Exec) rounded(exact *Term, what string) *Term {
	c := e.ctx
	if exact.op == OpRConst {
		f, _ := exact.rat.Float64()
		return c.RealConstF(f)
	}
	e.realN++
	d := c.Var(fmt.Sprintf("delta!%d", e.realN), RealSort)
	u := c.RealConstRat(new(big.Rat).SetFrac(big.NewInt(1), two53))
	ue := c.RBin(OpRMul, u, exact)
	neg := c.RBin(OpRSub, c.RealConstInt(0), ue)
	pos := c.BAnd(c.RCmp(OpRLe, neg, d), c.RCmp(OpRLe, d, ue))
	e.floatOps++
	if c.nonNegReal(exact) {
		e.assumeQuiet(pos)
		r := c.RBin(OpRAdd, exact, d)
		c.markNonNeg(r)
		return r
	}
	ngv := c.BAnd(c.RCmp(OpRLe, ue, d), c.RCmp(OpRLe, d, neg))
	e.assumeQuiet(c.Ite(c.RCmp(OpRLe, c.RealConstInt(0), exact), pos, ngv))
	return c.RBin(OpRAdd, exact, d)
}

func isPow2Rat(r *big.Rat) bool {
	if r.Sign() <= 0 {
		return false
	}
	n, d := r.Num(), r.Denom()
	one := big.NewInt(1)
	if d.Cmp(one) == 0 {
		return n.TrailingZeroBits() == uint(n.BitLen()-1)
	}
	if n.Cmp(one) == 0 {
		return d.TrailingZeroBits() == uint(d.BitLen()-1)
	}
	return false
}

func (e *Exec) realBinop(op token.Token, x, y *Term) Value {
	c := e.ctx
	switch op {
	case token.EQL:
		return c.Eq(x, y)
	case token.NEQ:
		return c.BNot(c.Eq(x, y))
	case token.LSS:
		return c.RCmp(OpRLt, x, y)
	case token.LEQ:
		return c.RCmp(OpRLe, x, y)
	case token.GTR:
		return c.RCmp(OpRLt, y, x)
	case token.GEQ:
		return c.RCmp(OpRLe, y, x)
	}
	var o Op
	switch op {
	case token.ADD:
		o = OpRAdd
	case token.SUB:
		o = OpRSub
	case token.MUL:
		o = OpRMul
	case token.QUO:
		o = OpRDiv
	default:
		e.unsupported("float op %s in arithmetic mode", op)
	}
	if o == OpRDiv {
		// division by zero yields ±Inf/NaN: outside the envelope model
		if y.op == OpRConst && y.rat.Sign() == 0 {
			e.unsupported("float division by constant zero in arithmetic mode")
		}
		e.floatNonZero = append(e.floatNonZero, y)
	}
	var exact *Term
	if o == OpRDiv && y.op != OpRConst {
		// x / y as a fresh q with q*y = x (multiplicative form; y != 0 is a side obligation)
		e.obligation(c.BNot(c.Eq(y, c.RealConstInt(0))), "float division by a non-zero value")
		e.realN++
		q := c.Var(fmt.Sprintf("quot!%d", e.realN), RealSort)
		e.assumeQuiet(c.Eq(c.RBin(OpRMul, q, y), x))
		if c.nonNegReal(x) && c.nonNegReal(y) {
			c.markNonNeg(q)
			e.assumeQuiet(c.RCmp(OpRLe, c.RealConstInt(0), q))
		}
		exact = q
	} else {
		exact = c.RBin(o, x, y)
	}
	// exact cases: multiplication / division by a power of two
	if (o == OpRMul && ((x.op == OpRConst && isPow2Rat(x.rat)) || (y.op == OpRConst && isPow2Rat(y.rat)))) ||
		(o == OpRDiv && y.op == OpRConst && isPow2Rat(y.rat)) {
		return RealV{exact}
	}
	return RealV{e.rounded(exact, op.String())}
}

func (e *Exec) realFromInt(t *Term) Value {
	c := e.ctx
	if t.op == OpRConst {
		f, _ := new(big.Float).SetInt(t.rat.Num()).Float64()
		return FloatV{f}
	}
	in := c.info(t)
	if in.lo != nil && in.hi != nil && new(big.Int).Abs(in.lo).Cmp(two53) <= 0 && new(big.Int).Abs(in.hi).Cmp(two53) <= 0 {
		return RealV{c.ToReal(t)}
	}
	return RealV{e.rounded(c.ToReal(t), "int->float")}
}

// realToInt: Go float→int conversion truncates toward zero; out of range is implementation-defined
// and is recorded as an obligation failure.
func (e *Exec) realToInt(ins ssa.Instruction, rv RealV, to types.Type) Value {
	c := e.ctx
	if rv.t.op == OpToReal && rv.t.args[0].sort.K == KInt {
		// an integer-valued float (e.g. the result of math.Round): the conversion is exact if it is in range
		k := rv.t.args[0]
		lo, hi := typeRange(e, to)
		in := c.info(k)
		if !(in.lo != nil && in.hi != nil && in.lo.Cmp(lo) >= 0 && in.hi.Cmp(hi) <= 0) {
			e.obligation(c.BAnd(c.RCmp(OpRLe, c.IntConstBig(lo), k), c.RCmp(OpRLe, k, c.IntConstBig(hi))), "float-to-int conversion in range at "+e.posOf(ins))
		}
		return k
	}
	e.realN++
	k := c.Var(fmt.Sprintf("trunc!%d", e.realN), IntSort)
	lo, hi := typeRange(e, to)
	c.setInfo(k, lo, hi, 0)
	x := rv.t
	zero := c.RealConstInt(0)
	kr := c.ToReal(k)
	one := c.RealConstInt(1)
	// x >= 0: k <= x < k+1 ; x < 0: k-1 < x <= k
	pos := c.BAnd(c.RCmp(OpRLe, kr, x), c.RCmp(OpRLt, x, c.RBin(OpRAdd, kr, one)))
	neg := c.BAnd(c.RCmp(OpRLt, c.RBin(OpRSub, kr, one), x), c.RCmp(OpRLe, x, kr))
	e.assumeQuiet(c.Ite(c.RCmp(OpRLe, zero, x), pos, neg))
	// obligation: x within the target range
	inr := c.BAnd(c.RCmp(OpRLt, c.RBin(OpRSub, c.ToReal(c.IntConstBig(lo)), one), x), c.RCmp(OpRLt, x, c.RBin(OpRAdd, c.ToReal(c.IntConstBig(hi)), one)))
	e.obligation(inr, "float-to-int conversion in range at "+e.posOf(ins))
	return k
}

// mathRound / mathFloor etc. on envelope reals.
func (e *Exec) realRound(x *Term, mode string) Value {
	c := e.ctx
	e.realN++
	k := c.Var(fmt.Sprintf("%s!%d", mode, e.realN), IntSort)
	if c.nonNegReal(x) {
		// the rounded value of a non-negative float is a non-negative integer below 2^53 (obligation below)
		e.assumeQuiet(c.RCmpRaw(OpRLe, c.IntConst(0), k))
		c.setInfo(k, big.NewInt(0), new(big.Int).Set(two53), 0)
	}
	kr := c.ToReal(k)
	half := c.RealConstRat(big.NewRat(1, 2))
	one := c.RealConstInt(1)
	zero := c.RealConstInt(0)
	switch mode {
	case "round": // half away from zero
		pos := c.BAnd(c.RCmp(OpRLe, c.RBin(OpRSub, kr, half), x), c.RCmp(OpRLt, x, c.RBin(OpRAdd, kr, half)))
		neg := c.BAnd(c.RCmp(OpRLt, c.RBin(OpRSub, kr, half), x), c.RCmp(OpRLe, x, c.RBin(OpRAdd, kr, half)))
		e.assumeQuiet(c.Ite(c.RCmp(OpRLe, zero, x), pos, neg))
	case "floor":
		e.assumeQuiet(c.BAnd(c.RCmp(OpRLe, kr, x), c.RCmp(OpRLt, x, c.RBin(OpRAdd, kr, one))))
	case "ceil":
		e.assumeQuiet(c.BAnd(c.RCmp(OpRLt, c.RBin(OpRSub, kr, one), x), c.RCmp(OpRLe, x, kr)))
	case "trunc":
		pos := c.BAnd(c.RCmp(OpRLe, kr, x), c.RCmp(OpRLt, x, c.RBin(OpRAdd, kr, one)))
		neg := c.BAnd(c.RCmp(OpRLt, c.RBin(OpRSub, kr, one), x), c.RCmp(OpRLe, x, kr))
		e.assumeQuiet(c.Ite(c.RCmp(OpRLe, zero, x), pos, neg))
	}
	// the result is an integer-valued float; exact as long as |k| < 2^53 (obligation)
	e.obligation(c.BAnd(c.RCmp(OpRLe, c.IntConstBig(new(big.Int).Neg(two53)), k), c.RCmp(OpRLe, k, c.IntConstBig(two53))), "rounded value below 2^53")
	return RealV{kr}
}

func (e *Exec) concretizeArith(t *Term, what string) int64 {
	if t.op == OpRConst {
		if t.rat.IsInt() && t.rat.Num().IsInt64() {
			return t.rat.Num().Int64()
		}
		e.unsupported("non-integer constant as %s", what)
	}
	e.unsupported("symbolic %s in arithmetic mode", what)
	return 0
}

var _ = math.MaxInt64
