package main

// One symbolic path: decisions, path condition, solver interaction, harness intrinsics' back end.

import (
	"fmt"
	"go/types"
	"sort"
	"strings"

	"golang.org/x/tools/go/ssa"
)

type Dec struct {
	Kind byte  // 'b' branch, 'v' concretised value (eq), 'n' concretised value excluded (neq)
	Val  int64 // branch: 0/1
}

type Violation struct {
	Harness  string            `json:"harness"`
	ID       string            `json:"assertion"`
	Kind     string            `json:"kind"` // "assert" | "panic" | "alloc" | "obligation"
	Msg      string            `json:"msg"`
	Inputs   map[string]uint64 `json:"inputs"`
	Params   map[string]int    `json:"params"`
	Known    string            `json:"known,omitempty"`
	Where    string            `json:"where,omitempty"`
	Path     string            `json:"path,omitempty"`
	Replayed string            `json:"replayed,omitempty"`
}

type Exec struct {
	w       *Worker
	eng     *Engine
	ctx     *TermCtx
	h       *HarnessRun
	globals map[*ssa.Global]*Object

	prefix       []Dec
	pos          int
	decs         []Dec
	pc           []*Term
	model        Model // satisfies pc, or nil
	facts        *factStore
	clock        *Term
	locks        map[string]*[2]int
	ignoreGo     bool
	oracles      map[string]*Term
	summaryCalls map[string][][2]*Term
	sleeps       int
	usedFresh    bool

	inputs    []*Term
	inputSeen map[string]int
	observed  []string

	steps        int
	stepBudget   int
	depth        int
	objN         int
	allocBytes   int64
	allocLimit   int64 // 0 = none
	maxAlloc     int64
	known        string
	initMode     bool
	arith        bool
	realN        int
	floatOps     int
	floatRange   []*Term
	floatNonZero []*Term
	reached      map[string]bool
	onceDone     map[string]bool
	pooled       map[int][]Value // sync.Pool model: values put, per pool object
	nopanicDepth int
}

func (e *Exec) noteFn(fn *ssa.Function) {
	if e.initMode {
		return
	}
	e.w.fnSeen[fn] = true
}

// ---- solver plumbing ----

func (e *Exec) check(extra *Term) Result {
	conds := append(append([]*Term{}, e.pc...), extra)
	e.w.solver.Declare(e.inputs)
	r := e.w.solver.Check(conds)
	e.w.stats.FeasQueries++
	e.usedFresh = false
	if r == Unknown && e.w.fresh != nil {
		e.w.fresh.Declare(e.inputs)
		r = e.w.fresh.Check(conds)
		e.usedFresh = true
	}
	return r
}

func (e *Exec) fetchModel() Model {
	s := e.w.solver
	if e.usedFresh {
		s = e.w.fresh
	}
	m, err := s.Values(e.bvInputs())
	if err != nil {
		return nil
	}
	return m
}

func (e *Exec) bvInputs() []*Term {
	return e.inputs // bit-vector, Bool, Int and Real inputs alike (Int/Real values are parsed as numerals)
}

func (e *Exec) modelSays(c *Term) (bool, bool) {
	if e.model == nil || e.arith {
		return false, false
	}
	return Eval(c, e.model) == 1, true
}

func (e *Exec) addPC(c *Term) {
	if c.IsTrue() {
		return
	}
	e.pc = append(e.pc, c)
	if e.facts == nil {
		e.facts = newFacts()
	}
	if !e.arith {
		e.facts.learn(c, true)
	}
	if e.model != nil {
		if e.arith || Eval(c, e.model) != 1 {
			e.model = nil
		}
	}
}

// feasible decides sat(pc ∧ c); unknown counts as feasible (kept).
func (e *Exec) feasible(c *Term) bool {
	if c.IsTrue() {
		return true
	}
	if c.IsFalse() {
		return false
	}
	if e.facts != nil && !e.arith {
		switch e.facts.eval(c) {
		case 1:
			return true
		case 0:
			e.w.stats.FactPruned++
			return false
		}
	}
	if v, ok := e.modelSays(c); ok && v {
		return true
	}
	r := e.check(c)
	switch r {
	case Sat:
		if !e.arith {
			if m := e.fetchModel(); m != nil {
				// the model satisfies pc ∧ c; it stays valid for pc (c is not yet added)
				e.model = m
			}
		}
		return true
	case Unsat:
		return false
	}
	e.w.stats.UnknownFeas++
	return true
}

// branch decides a two-way fork on c and returns the side taken on this path.
func (e *Exec) branch(c *Term, ins ssa.Instruction) bool {
	if c.IsTrue() {
		return true
	}
	if c.IsFalse() {
		return false
	}
	if e.initMode {
		panic(pathEnd{"unsupported", "symbolic branch during package initialisation"})
	}
	nc := e.ctx.BNot(c)
	if e.facts != nil && !e.arith {
		// consequences of the path condition need neither a decision nor a query
		switch e.facts.eval(c) {
		case 1:
			e.w.stats.FactPruned++
			return true
		case 0:
			e.w.stats.FactPruned++
			return false
		}
	}
	if e.pos < len(e.prefix) {
		d := e.prefix[e.pos]
		if d.Kind != 'b' {
			panic(pathEnd{"internal", "replay divergence: expected branch decision"})
		}
		e.pos++
		e.decs = append(e.decs, d)
		if d.Val == 1 {
			e.addPC(c)
			return true
		}
		e.addPC(nc)
		return false
	}
	// new decision; use the model to save one query
	var tOK, fOK bool
	if v, ok := e.modelSays(c); ok {
		if v {
			tOK = true
			saved := e.model
			fOK = e.feasible(nc)
			if fOK {
				_ = saved
			}
		} else {
			fOK = true
			tOK = e.feasible(c)
		}
	} else {
		tOK = e.feasible(c)
		if !tOK {
			fOK = true // pc is satisfiable by construction
		} else {
			fOK = e.feasible(nc)
		}
	}
	e.w.stats.Forks++
	switch {
	case tOK && fOK:
		alt := append(append([]Dec{}, e.decs...), Dec{'b', 0})
		e.w.push(alt)
		e.decs = append(e.decs, Dec{'b', 1})
		e.pos++
		e.addPC(c)
		return true
	case tOK:
		e.decs = append(e.decs, Dec{'b', 1})
		e.pos++
		e.addPC(c)
		return true
	case fOK:
		e.decs = append(e.decs, Dec{'b', 0})
		e.pos++
		e.addPC(nc)
		return false
	}
	panic(pathEnd{"infeasible", "both sides infeasible"})
}

// concretize forks over the feasible values of t (as unsigned bit pattern) and returns this path's value.
// Order: the small values 0..cap-1 in ascending order (ordinary two-way forks on t == v), then up to 16 further
// values proposed by solver models; if still more values are feasible the remaining class is represented by ONE
// sampled value (a stated coverage cut, counted in the evidence as sampled_value_classes).
func (e *Exec) concretize(t *Term, what string) uint64 {
	if t.IsConst() {
		return t.val
	}
	if e.initMode {
		panic(pathEnd{"unsupported", "symbolic value during package initialisation"})
	}
	small := e.h.ConcretizeCap
	for v := 0; v < small; v++ {
		if uint64(v) > mask(t.sort.W) {
			break
		}
		if e.branch(e.ctx.Eq(t, e.ctx.Const(t.sort.W, uint64(v))), nil) {
			return uint64(v)
		}
	}
	extra := 0
	for {
		if e.pos < len(e.prefix) {
			d := e.prefix[e.pos]
			e.pos++
			e.decs = append(e.decs, d)
			cv := e.ctx.Const(t.sort.W, uint64(d.Val))
			switch d.Kind {
			case 'v', 's':
				e.addPC(e.ctx.Eq(t, cv))
				return uint64(d.Val) & mask(t.sort.W)
			case 'n':
				extra++
				e.addPC(e.ctx.BNot(e.ctx.Eq(t, cv)))
				continue
			}
			panic(pathEnd{"internal", "replay divergence: expected concretisation decision"})
		}
		// pick a feasible value
		var v uint64
		if e.model != nil {
			v = Eval(t, e.model)
		} else {
			r := e.check(e.ctx.True)
			if r != Sat {
				if r == Unsat {
					panic(pathEnd{"infeasible", "path condition unsatisfiable at concretisation"})
				}
				panic(pathEnd{"unknown", "solver could not produce a value for " + what})
			}
			m := e.fetchModel()
			if m == nil {
				panic(pathEnd{"unknown", "no model for " + what})
			}
			e.model = m
			v = Eval(t, m)
		}
		cv := e.ctx.Const(t.sort.W, v)
		eq := e.ctx.Eq(t, cv)
		neq := e.ctx.BNot(eq)
		e.w.stats.Forks++
		if extra >= 16 {
			// representative of the remaining value class
			if e.feasible(neq) {
				e.w.stats.SampledClasses++
				e.decs = append(e.decs, Dec{'s', int64(v)})
			} else {
				e.decs = append(e.decs, Dec{'v', int64(v)})
			}
			e.pos++
			e.addPC(eq)
			return v
		}
		if e.feasible(neq) {
			alt := append(append([]Dec{}, e.decs...), Dec{'n', int64(v)})
			e.w.push(alt)
		}
		e.decs = append(e.decs, Dec{'v', int64(v)})
		e.pos++
		e.addPC(eq)
		return v
	}
}

func (e *Exec) concretizeInt(t *Term, ty types.Type, what string) int64 {
	if t.sort.K == KInt {
		return e.concretizeArith(t, what)
	}
	v := e.concretize(t, what)
	if isSigned(ty) {
		return sext64(v, t.sort.W)
	}
	if v > 1<<62 {
		return -1 // huge unsigned: treated as out of range by callers
	}
	return int64(v)
}

// assume adds c to the path condition; the path ends if that is infeasible.
func (e *Exec) assume(c *Term) {
	if c.IsTrue() {
		return
	}
	if c.IsFalse() {
		panic(pathEnd{"infeasible", "assume(false)"})
	}
	if e.pos < len(e.prefix) {
		e.addPC(c)
		return
	}
	if !e.feasible(c) {
		panic(pathEnd{"infeasible", "assumption infeasible"})
	}
	e.addPC(c)
}

// assumeQuiet adds a defining constraint of a fresh variable (always satisfiable).
func (e *Exec) assumeQuiet(c *Term) {
	if c.IsTrue() {
		return
	}
	e.pc = append(e.pc, c)
	e.model = nil
}

func (e *Exec) replaying() bool { return e.pos < len(e.prefix) }

// assertion: deciding query pc ∧ ¬c.
func (e *Exec) assertion(c *Term, id string) {
	e.w.stats.noteAssert(id)
	if e.replaying() {
		e.addPC(c)
		return
	}
	if c.IsTrue() {
		e.w.stats.AssertConst++
		return
	}
	nc := e.ctx.BNot(c)
	var r Result
	if nc.IsTrue() {
		// the assertion fails on this path for sure: what remains to decide is whether the path itself is feasible
		// (a feasibility query answered "unknown" keeps a path alive)
		nc = nil
		r = e.w.decide(e, e.ctx.True)
		if r == Unsat {
			panic(pathEnd{"infeasible", "path infeasible (found at a failing assertion)"})
		}
	} else {
		r = e.w.decide(e, nc)
	}
	switch r {
	case Unsat:
		e.w.stats.AssertUnsat++
		return // c is implied; no need to add it
	case Sat:
		e.reportViolation("assert", id, "assertion "+id+" can fail", nc, "")
	default:
		e.w.stats.notEstablished("assertion " + id + ": solver answered unknown")
	}
	// continue on the side where the assertion holds
	if !e.feasible(c) {
		panic(pathEnd{"done", "assertion fails on every continuation"})
	}
	e.addPC(c)
}

// obligation: engine-side proof obligation (float ranges etc.); failure is reported as not established.
func (e *Exec) obligation(c *Term, what string) {
	if e.replaying() || c.IsTrue() {
		return
	}
	r := e.w.decide(e, e.ctx.BNot(c))
	if r != Unsat {
		e.w.stats.notEstablished("obligation not discharged (" + r.String() + "): " + what)
	} else {
		e.w.stats.Obligations++
	}
}

func (e *Exec) reportViolation(kind, id, msg string, extra *Term, where string) {
	// model for pc ∧ extra
	conds := append([]*Term{}, e.pc...)
	if extra != nil {
		conds = append(conds, extra)
	}
	var m Model
	switch {
	case e.model != nil && extra == nil:
		m = e.model
	case extra != nil && e.w.lastModel != nil:
		m = e.w.lastModel // model of the deciding query that just answered sat
	default:
		if e.w.solver.Check(conds) == Sat {
			m, _ = e.w.solver.Values(e.bvInputs())
		}
	}
	if m == nil && len(e.inputs) > 0 {
		e.w.stats.notEstablished("violation candidate (" + id + ") on a path whose feasibility the solver could not decide")
		return
	}
	v := Violation{Harness: e.h.Name, ID: id, Kind: kind, Msg: msg, Inputs: map[string]uint64{}, Params: e.h.Params, Known: e.known, Where: where}
	if m != nil {
		for _, in := range e.inputs {
			v.Inputs[in.name] = m[in.name]
			if in.sort.K == KReal {
				v.Inputs[in.name] = m[in.name+"@f64"] // float64 bit pattern of the (rational) model value
			}
		}
	}
	var sb strings.Builder
	for _, d := range e.decs {
		fmt.Fprintf(&sb, "%c%d ", d.Kind, d.Val)
	}
	v.Path = strings.TrimSpace(sb.String())
	e.w.addViolation(v)
}

// ---- inputs ----

func (e *Exec) inputName(name string) string {
	if e.inputSeen == nil {
		e.inputSeen = map[string]int{}
	}
	n := e.inputSeen[name]
	e.inputSeen[name] = n + 1
	if n == 0 {
		return name
	}
	return fmt.Sprintf("%s#%d", name, n)
}

func (e *Exec) newInput(name string, s Sort) *Term {
	t := e.ctx.Var(e.inputName(name), s)
	e.inputs = append(e.inputs, t)
	return t
}

func (e *Exec) checkAlloc(n int64) {
	if e.allocLimit > 0 && n > e.allocLimit && !e.initMode {
		panic(pathEnd{"alloc", fmt.Sprintf("single allocation of %d bytes exceeds the limit %d", n, e.allocLimit)})
	}
}

func sortedStrings(m map[string]bool) []string {
	r := make([]string, 0, len(m))
	for k := range m {
		r = append(r, k)
	}
	sort.Strings(r)
	return r
}

// guessModel evaluates pc ∧ extra under candidate assignments of the bit-vector inputs (all zero, all ones, all 0x7F,
// pseudo-random); it returns an assignment satisfying all of them, or nil.
func (e *Exec) guessModel(extra *Term) Model {
	if extra == nil {
		return nil
	}
	for _, in := range e.inputs {
		if in.sort.K != KBV && in.sort.K != KBool {
			return nil
		}
	}
	seed := uint64(0x9E3779B97F4A7C15)
	next := func() uint64 {
		seed ^= seed << 13
		seed ^= seed >> 7
		seed ^= seed << 17
		return seed
	}
	for try := 0; try < 64; try++ {
		m := Model{}
		for _, in := range e.inputs {
			var v uint64
			switch try {
			case 0:
				v = 0
			case 1:
				v = ^uint64(0)
			case 2:
				v = 0x7F7F7F7F7F7F7F7F
			case 3:
				v = 1
			default:
				v = next()
				if try%2 == 0 {
					v &= 0x7F7F7F7F7F7F7F7F
				}
			}
			m[in.name] = v & maskSort(in.sort)
		}
		ok := Eval(extra, m) == 1
		for i := 0; ok && i < len(e.pc); i++ {
			ok = Eval(e.pc[i], m) == 1
		}
		if ok {
			return m
		}
	}
	return nil
}
