package main

// Loading, package initialisation, worker pool (DFS over decision prefixes), statistics.

import (
	"fmt"
	"go/types"
	"os"
	"path/filepath"
	"sort"
	"strings"
	"sync"
	"time"

	"golang.org/x/tools/go/packages"
	"golang.org/x/tools/go/ssa"
	"golang.org/x/tools/go/ssa/ssautil"
)

var repoRoot = "/repo/v2" // VERIF_REPO overrides (scratch worktrees for experiments; registered commands use /repo)
const modPath = "gitlab.com/gomidi/midi/v2"

var verifRoot = "/verif"

type Engine struct {
	prog           *ssa.Program
	ssaPkgs        map[string]*ssa.Package
	sizes          types.Sizes
	initRun        map[*ssa.Package]bool
	initOrder      []*ssa.Package
	denyPkg        map[string]bool
	runtimeErrType types.Type
	errorStringT   types.Type
	findings       map[string]Finding
	overlay        map[string][]byte
	overlaySrc     map[string]string // virtual path -> real path
	loadTime       time.Duration
}

type Finding struct {
	Property string `json:"property"`
	ID       string `json:"id"`
	Status   string `json:"status"` // known | fixed
	What     string `json:"what"`
	Commit   string `json:"commit,omitempty"`
	Witness  string `json:"witness,omitempty"`
}

func (g *Engine) findingStatus(id string) string {
	if f, ok := g.findings[id]; ok {
		return f.Status
	}
	return ""
}

var initAllowStd = map[string]bool{
	"errors": true, "io": true, "bytes": true, "sort": true, "encoding/binary": true, "math": true, "math/bits": true,
	"strconv": true, "unicode/utf8": true, "io/ioutil": true, "strings": true, "slices": true, "cmp": true, "encoding/hex": true,
}

var denyPkgs = map[string]bool{
	"os": true, "syscall": true, "runtime": true, "reflect": true, "internal/reflectlite": true, "os/exec": true,
	"fmt": true, "log": true, "sync": true, "sync/atomic": true, "unsafe": true, "internal/poll": true,
	"encoding/json": true, "testing": true,
}

// collectOverlay maps /verif/harness/v2/<dir>/<f>.go to /repo/v2/<dir>/zz_verif_<f>.go.
func collectOverlay() (map[string][]byte, map[string]string, error) {
	ov := map[string][]byte{}
	src := map[string]string{}
	root := filepath.Join(verifRoot, "harness", "v2")
	err := filepath.Walk(root, func(p string, info os.FileInfo, err error) error {
		if err != nil {
			return err
		}
		if info.IsDir() || !strings.HasSuffix(p, ".go") {
			return nil
		}
		rel, _ := filepath.Rel(root, p)
		dir, base := filepath.Split(rel)
		virt := filepath.Join(repoRoot, dir, "zz_verif_"+base)
		b, err := os.ReadFile(p)
		if err != nil {
			return err
		}
		ov[virt] = b
		src[virt] = p
		return nil
	})
	return ov, src, err
}

func LoadEngine(pkgPatterns []string) (*Engine, error) {
	t0 := time.Now()
	ov, src, err := collectOverlay()
	if err != nil {
		return nil, err
	}
	cfg := &packages.Config{
		Mode:    packages.LoadAllSyntax,
		Dir:     repoRoot,
		Overlay: ov,
		Env:     append(os.Environ(), "GOFLAGS=-mod=mod", "GOPROXY=off", "GOSUMDB=off", "GOTOOLCHAIN=local", "CGO_ENABLED=0"),
	}
	pats := append([]string{modPath + "/internal/zzverif"}, pkgPatterns...)
	pkgs, err := packages.Load(cfg, pats...)
	if err != nil {
		return nil, err
	}
	var errs []string
	packages.Visit(pkgs, nil, func(p *packages.Package) {
		for _, e := range p.Errors {
			errs = append(errs, e.Error())
		}
	})
	if len(errs) > 0 {
		return nil, fmt.Errorf("load errors (harness does not compile against the current tree?):\n%s", strings.Join(errs, "\n"))
	}
	prog, _ := ssautil.AllPackages(pkgs, ssa.InstantiateGenerics)
	prog.Build()
	g := &Engine{prog: prog, ssaPkgs: map[string]*ssa.Package{}, sizes: types.SizesFor("gc", "amd64"),
		initRun: map[*ssa.Package]bool{}, denyPkg: denyPkgs, overlay: ov, overlaySrc: src, findings: map[string]Finding{}}
	for _, p := range prog.AllPackages() {
		g.ssaPkgs[p.Pkg.Path()] = p
	}
	// init order: topological over imports
	seen := map[*types.Package]bool{}
	var visit func(p *types.Package)
	visit = func(p *types.Package) {
		if seen[p] {
			return
		}
		seen[p] = true
		for _, q := range p.Imports() {
			visit(q)
		}
		sp := g.ssaPkgs[p.Path()]
		if sp == nil {
			return
		}
		if strings.HasPrefix(p.Path(), modPath) || initAllowStd[p.Path()] {
			g.initRun[sp] = true
			g.initOrder = append(g.initOrder, sp)
		}
	}
	for _, p := range pkgs {
		visit(p.Types)
	}
	g.runtimeErrType = types.NewNamed(types.NewTypeName(0, nil, "runtimeError", nil), types.Typ[types.String], nil)
	if ep := g.ssaPkgs["errors"]; ep != nil {
		g.errorStringT = ep.Type("errorString").Type()
	}
	g.loadTime = time.Since(t0)
	return g, nil
}

// ---- harness run configuration ----

type HarnessRun struct {
	Name           string            `json:"name"`
	Pkg            string            `json:"pkg"`
	Func           string            `json:"func"`
	Params         map[string]int    `json:"params"`
	Arith          bool              `json:"arith"`
	ConcretizeCap  int               `json:"concretize_cap"`
	StepBudget     int               `json:"step_budget"`
	MaxPaths       int               `json:"max_paths"`
	TimeoutS       int               `json:"timeout_s"`
	Solver         string            `json:"solver"`
	Portfolio      []string          `json:"portfolio"`
	QueryTimeoutMs int               `json:"query_timeout_ms"`
	IncTimeoutMs   int               `json:"inc_timeout_ms"`
	Workers        int               `json:"workers"`
	Reach          []string          `json:"reach"`
	Summaries      map[string]string `json:"summaries"`
}

type Stats struct {
	Paths          int
	PathEnds       map[string]int
	Forks          int
	FeasQueries    int
	UnknownFeas    int
	FactPruned     int
	FreshQueries   int
	OpaqueInts     int
	GoSkipped      int
	SampledClasses int
	AssertConst    int
	AssertUnsat    int
	GuessedModels  int
	Obligations    int
	DecideQueries  int
	DecideSat      int
	DecideUnsat    int
	DecideUnknown  int
	Asserts        map[string]int
	Reached        map[string]int
	Choices        map[string]int
	NotEst         map[string]int
	Steps          int64
	SolverTime     time.Duration
	SolverQueries  int
	MaxDepth       int
	Samples        []map[string]interface{}
	KnownHits      map[string]int
}

func newStats() *Stats {
	return &Stats{PathEnds: map[string]int{}, Asserts: map[string]int{}, Reached: map[string]int{}, Choices: map[string]int{}, NotEst: map[string]int{}, KnownHits: map[string]int{}}
}

func (s *Stats) noteAssert(id string)       { s.Asserts[id]++ }
func (s *Stats) noteReach(id string)        { s.Reached[id]++ }
func (s *Stats) noteChoice(n string, k int) { s.Choices[n] = k }
func (s *Stats) notEstablished(why string)  { s.NotEst[why]++ }

func (s *Stats) merge(o *Stats) {
	s.Paths += o.Paths
	s.Forks += o.Forks
	s.FeasQueries += o.FeasQueries
	s.UnknownFeas += o.UnknownFeas
	s.FactPruned += o.FactPruned
	s.FreshQueries += o.FreshQueries
	s.OpaqueInts += o.OpaqueInts
	s.GoSkipped += o.GoSkipped
	s.SampledClasses += o.SampledClasses
	s.AssertConst += o.AssertConst
	s.AssertUnsat += o.AssertUnsat
	s.GuessedModels += o.GuessedModels
	s.Obligations += o.Obligations
	s.DecideQueries += o.DecideQueries
	s.DecideSat += o.DecideSat
	s.DecideUnsat += o.DecideUnsat
	s.DecideUnknown += o.DecideUnknown
	s.Steps += o.Steps
	s.SolverTime += o.SolverTime
	s.SolverQueries += o.SolverQueries
	if o.MaxDepth > s.MaxDepth {
		s.MaxDepth = o.MaxDepth
	}
	for k, v := range o.PathEnds {
		s.PathEnds[k] += v
	}
	for k, v := range o.Asserts {
		s.Asserts[k] += v
	}
	for k, v := range o.Reached {
		s.Reached[k] += v
	}
	for k, v := range o.Choices {
		s.Choices[k] = v
	}
	for k, v := range o.NotEst {
		s.NotEst[k] += v
	}
	for k, v := range o.KnownHits {
		s.KnownHits[k] += v
	}
	if len(s.Samples) < 8 {
		s.Samples = append(s.Samples, o.Samples...)
		if len(s.Samples) > 8 {
			s.Samples = s.Samples[:8]
		}
	}
}

type runState struct {
	mu         sync.Mutex
	cond       *sync.Cond
	stack      [][]Dec
	active     int
	started    int
	maxPaths   int
	deadline   time.Time
	stopped    string
	violations []Violation
	vioCount   map[string]int
}

type Worker struct {
	eng         *Engine
	id          int
	ctx         *TermCtx
	solver      *Solver
	fresh       *Solver
	aux         []*Solver
	baseGlobals map[*ssa.Global]*Object
	rs          *runState
	stats       *Stats
	fnSeen      map[*ssa.Function]bool
	lastModel   Model
	lastRestart int
	pathsRun    int
	h           *HarnessRun
}

func (w *Worker) push(p []Dec) {
	w.rs.mu.Lock()
	w.rs.stack = append(w.rs.stack, p)
	w.rs.mu.Unlock()
	w.rs.cond.Signal()
}

func (w *Worker) addViolation(v Violation) {
	w.rs.mu.Lock()
	defer w.rs.mu.Unlock()
	key := v.Kind + ":" + v.ID + ":" + v.Known
	w.rs.vioCount[key]++
	if w.rs.vioCount[key] <= 3 {
		w.rs.violations = append(w.rs.violations, v)
	}
}

// decide answers a deciding query pc ∧ q with the portfolio.
func (w *Worker) decide(e *Exec, q *Term) Result {
	conds := append(append([]*Term{}, e.pc...), q)
	w.stats.DecideQueries++
	w.lastModel = nil
	used := w.solver
	w.solver.Declare(e.inputs)
	r := w.solver.Check(conds)
	if r == Unknown {
		// the first solver gave up: before the slower ones, look for a model by evaluating the query under a few
		// candidate assignments (a hit is a genuine model and is replayed natively like any other)
		if m := e.guessModel(q); m != nil {
			w.lastModel = m
			w.stats.GuessedModels++
			w.stats.DecideSat++
			return Sat
		}
	}
	if r == Unknown && w.fresh != nil {
		w.fresh.Declare(e.inputs)
		r = w.fresh.Check(conds)
		used = w.fresh
	}
	if r == Unknown {
		for _, s := range w.aux {
			s.Declare(e.inputs)
			r = s.Check(conds)
			if r != Unknown {
				used = s
				break
			}
		}
	}
	if r == Sat {
		if m, err := used.Values(e.bvInputs()); err == nil {
			w.lastModel = m
		}
	}
	switch r {
	case Sat:
		w.stats.DecideSat++
	case Unsat:
		w.stats.DecideUnsat++
	default:
		w.stats.DecideUnknown++
	}
	return r
}

func (w *Worker) initHeap() error {
	e := &Exec{w: w, eng: w.eng, ctx: w.ctx, globals: map[*ssa.Global]*Object{}, initMode: true, stepBudget: 50_000_000, h: w.h, maxAlloc: 1 << 24, arith: w.h.Arith}
	var ierr error
	for _, p := range w.eng.initOrder {
		fn := p.Func("init")
		if fn == nil {
			continue
		}
		func() {
			defer func() {
				if r := recover(); r != nil {
					if pe, ok := r.(pathEnd); ok {
						// poison every global of this package that has no value yet
						for _, m := range p.Members {
							if gl, ok := m.(*ssa.Global); ok {
								o := e.global(gl)
								o.v = PoisonV{why: "init of " + p.Pkg.Path() + " aborted: " + pe.msg}
							}
						}
						return
					}
					panic(r)
				}
			}()
			_, gp := e.callFunction(fn, nil, nil, nil, nil)
			if gp != nil {
				ierr = fmt.Errorf("init of %s panicked: %s", p.Pkg.Path(), gp.msg)
			}
		}()
	}
	w.baseGlobals = e.globals
	return ierr
}

func (w *Worker) runPath(prefix []Dec) {
	h := w.h
	if h.Arith && w.pathsRun > 0 {
		// arithmetic mode keeps per-term interval/sign facts in the term table; fresh variables are named per path,
		// so every path gets its own table (and solver state) to keep those facts from leaking between paths
		w.resetCtx()
	}
	w.pathsRun++
	hc := newHeapCloner()
	globals := make(map[*ssa.Global]*Object, len(w.baseGlobals))
	for g, o := range w.baseGlobals {
		globals[g] = hc.obj(o)
	}
	e := &Exec{w: w, eng: w.eng, ctx: w.ctx, h: h, globals: globals, prefix: prefix, stepBudget: h.StepBudget, maxAlloc: 1 << 21, arith: h.Arith, objN: 1 << 20}
	fn := w.eng.ssaPkgs[h.Pkg].Func(h.Func)
	end := pathEnd{kind: "done"}
	func() {
		defer func() {
			if r := recover(); r != nil {
				if pe, ok := r.(pathEnd); ok {
					end = pe
					return
				}
				panic(r)
			}
		}()
		_, gp := e.callFunction(fn, nil, nil, nil, nil)
		if gp != nil {
			if e.replaying() {
				return
			}
			e.reportViolation("panic", "no-panic", "uncaught panic: "+gp.msg, nil, gp.where)
			end = pathEnd{kind: "panic", msg: gp.msg}
		}
	}()
	st := w.stats
	st.Paths++
	st.Steps += int64(e.steps)
	if len(e.decs) > st.MaxDepth {
		st.MaxDepth = len(e.decs)
	}
	st.PathEnds[end.kind]++
	switch end.kind {
	case "done", "infeasible", "panic":
	case "alloc":
		e.reportViolation("alloc", "alloc-bound", end.msg, nil, "")
	default:
		st.notEstablished(end.kind + ": " + end.msg)
	}
	if e.known != "" {
		st.KnownHits[e.known]++
	}
	if len(st.Samples) < 2 && end.kind == "done" && !e.arith {
		sm := map[string]interface{}{"harness": h.Name, "decisions": len(e.decs), "steps": e.steps, "end": end.kind}
		if e.model == nil && e.w.solver.Check(e.pc) == Sat {
			e.model = e.fetchModel()
		}
		if e.model != nil {
			full := map[string]uint64{}
			for _, t := range e.inputs {
				full[t.name] = e.model[t.name]
			}
			sm["witness_inputs_full"] = full
			in := map[string]uint64{}
			for i, t := range e.inputs {
				if i >= 24 {
					break
				}
				in[t.name] = e.model[t.name]
			}
			sm["witness_inputs"] = in
		}
		st.Samples = append(st.Samples, sm)
	}
}

func (w *Worker) loop(wg *sync.WaitGroup) {
	defer wg.Done()
	rs := w.rs
	for {
		rs.mu.Lock()
		for len(rs.stack) == 0 && rs.active > 0 && rs.stopped == "" {
			rs.cond.Wait()
		}
		if rs.stopped != "" || (len(rs.stack) == 0 && rs.active == 0) {
			rs.mu.Unlock()
			rs.cond.Broadcast()
			return
		}
		if rs.started >= rs.maxPaths {
			rs.stopped = fmt.Sprintf("path budget %d exhausted with %d prefixes pending", rs.maxPaths, len(rs.stack))
			rs.mu.Unlock()
			rs.cond.Broadcast()
			return
		}
		if time.Now().After(rs.deadline) {
			rs.stopped = fmt.Sprintf("time budget exhausted with %d prefixes pending", len(rs.stack))
			rs.mu.Unlock()
			rs.cond.Broadcast()
			return
		}
		p := rs.stack[len(rs.stack)-1]
		rs.stack = rs.stack[:len(rs.stack)-1]
		rs.active++
		rs.started++
		rs.mu.Unlock()

		w.runPath(p)
		// keep the term table bounded
		if len(w.ctx.tab) > 3_000_000 {
			w.resetCtx()
		}
		// the incremental solver slows down as assumption literals accumulate: start a fresh process now and then
		if w.solver.Queries-w.lastRestart > 1500 {
			w.lastRestart = w.solver.Queries
			w.solver.Restart()
		}

		rs.mu.Lock()
		rs.active--
		rs.mu.Unlock()
		rs.cond.Broadcast()
	}
}

func (w *Worker) resetCtx() {
	w.ctx = NewTermCtx()
	w.solver.Restart()
	for _, s := range w.aux {
		s.Restart()
	}
	if w.fresh != nil {
		w.fresh.Restart()
	}
	w.initHeap()
}

type HarnessResult struct {
	Run        *HarnessRun
	Stats      *Stats
	Violations []Violation
	VioCount   map[string]int
	Stopped    string
	Funcs      []string
	Wall       time.Duration
	SolverErrs []string
	InitErr    string
}

func RunHarness(g *Engine, h *HarnessRun) (*HarnessResult, error) {
	if g.ssaPkgs[h.Pkg] == nil || g.ssaPkgs[h.Pkg].Func(h.Func) == nil {
		return nil, fmt.Errorf("harness %s.%s not found", h.Pkg, h.Func)
	}
	if h.ConcretizeCap == 0 {
		h.ConcretizeCap = 64
	}
	if h.StepBudget == 0 {
		h.StepBudget = 20_000_000
	}
	if h.MaxPaths == 0 {
		h.MaxPaths = 2_000_000
	}
	if h.TimeoutS == 0 {
		h.TimeoutS = 600
	}
	if v := os.Getenv("VERIF_MAX_HARNESS_S"); v != "" {
		var cap int
		fmt.Sscanf(v, "%d", &cap)
		if cap > 0 && h.TimeoutS > cap {
			h.TimeoutS = cap // experiments: cap the time budget of every harness
		}
	}
	if h.Solver == "" {
		h.Solver = "z3-new"
	}
	if h.Portfolio == nil && !h.Arith {
		// second opinions for queries the primary solver does not answer in time
		h.Portfolio = []string{"cvc5-int", "z3"}
	}
	if h.QueryTimeoutMs == 0 {
		h.QueryTimeoutMs = 30000
	}
	if h.IncTimeoutMs == 0 {
		h.IncTimeoutMs = 1500
	}
	nw := h.Workers
	if nw == 0 {
		nw = 16
	}
	t0 := time.Now()
	rs := &runState{maxPaths: h.MaxPaths, deadline: t0.Add(time.Duration(h.TimeoutS) * time.Second), vioCount: map[string]int{}}
	rs.cond = sync.NewCond(&rs.mu)
	rs.stack = [][]Dec{nil}
	var wg sync.WaitGroup
	workers := make([]*Worker, nw)
	res := &HarnessResult{Run: h, Stats: newStats()}
	var startErr error
	var smu sync.Mutex
	var swg sync.WaitGroup
	for i := 0; i < nw; i++ {
		swg.Add(1)
		go func(i int) {
			defer swg.Done()
			incT := h.QueryTimeoutMs
			if h.IncTimeoutMs > 0 && h.IncTimeoutMs < incT {
				incT = h.IncTimeoutMs
			}
			s, err := NewSolver(h.Solver, incT)
			if err != nil {
				smu.Lock()
				startErr = err
				smu.Unlock()
				return
			}
			w := &Worker{eng: g, id: i, ctx: NewTermCtx(), solver: s, rs: rs, stats: newStats(), fnSeen: map[*ssa.Function]bool{}, h: h}
			if fs, err := NewSolver("z3-new", h.QueryTimeoutMs); err == nil {
				fs.fresh = true
				w.fresh = fs
			}
			for _, an := range h.Portfolio {
				if a, err := NewSolver(an, h.QueryTimeoutMs); err == nil {
					w.aux = append(w.aux, a)
				}
			}
			if err := w.initHeap(); err != nil {
				smu.Lock()
				res.InitErr = err.Error()
				smu.Unlock()
			}
			workers[i] = w
		}(i)
	}
	swg.Wait()
	if startErr != nil {
		return nil, startErr
	}
	for _, w := range workers {
		wg.Add(1)
		go w.loop(&wg)
	}
	wg.Wait()
	fns := map[string]bool{}
	for _, w := range workers {
		w.stats.SolverTime = w.solver.Time
		w.stats.SolverQueries = w.solver.Queries
		if w.fresh != nil {
			w.stats.SolverTime += w.fresh.Time
			w.stats.SolverQueries += w.fresh.Queries
			w.stats.FreshQueries += w.fresh.Queries
			res.SolverErrs = append(res.SolverErrs, w.fresh.errors...)
			w.fresh.Close()
		}
		for _, a := range w.aux {
			w.stats.SolverTime += a.Time
			w.stats.SolverQueries += a.Queries
			res.SolverErrs = append(res.SolverErrs, a.errors...)
			a.Close()
		}
		res.SolverErrs = append(res.SolverErrs, w.solver.errors...)
		res.Stats.merge(w.stats)
		for f := range w.fnSeen {
			fns[f.String()] = true
		}
		w.solver.Close()
	}
	res.Funcs = sortedStrings(fns)
	res.Violations = rs.violations
	res.VioCount = rs.vioCount
	res.Stopped = rs.stopped
	res.Wall = time.Since(t0)
	if len(res.SolverErrs) > 0 {
		res.Stats.notEstablished(fmt.Sprintf("solver error lines: %d (first: %s)", len(res.SolverErrs), res.SolverErrs[0]))
	}
	if res.Stopped != "" {
		res.Stats.notEstablished(res.Stopped)
	}
	sort.Slice(res.Violations, func(i, j int) bool { return res.Violations[i].ID < res.Violations[j].ID })
	return res, nil
}

// lookupMethod is a non-panicking variant of prog.LookupMethod.
func (g *Engine) lookupMethod(T types.Type, pkg *types.Package, name string) *ssa.Function {
	sel := g.prog.MethodSets.MethodSet(T).Lookup(pkg, name)
	if sel == nil {
		return nil
	}
	return g.prog.MethodValue(sel)
}
