package main

// A cheap per-path fact store: unsigned intervals of bit-vector terms learned from the path condition,
// plus truth values of condition terms already on the path. It answers many branch conditions without a
// solver query (three-valued: true / false / unknown). Sound: it only ever derives consequences of pc.

type interval struct {
	lo, hi uint64
	neq    []uint64
}

type factStore struct {
	truth map[int32]bool
	iv    map[int32]*interval
}

func newFacts() *factStore {
	return &factStore{truth: map[int32]bool{}, iv: map[int32]*interval{}}
}

func (f *factStore) get(t *Term) *interval {
	if iv, ok := f.iv[t.id]; ok {
		return iv
	}
	iv := &interval{0, mask(t.sort.W), nil}
	// structural ranges
	switch t.op {
	case OpZExt:
		iv.hi = mask(t.args[0].sort.W)
	case OpAnd:
		if t.args[1].IsConst() {
			iv.hi = t.args[1].val
		}
	}
	f.iv[t.id] = iv
	return iv
}

func (f *factStore) peek(t *Term) (lo, hi uint64, neq []uint64) {
	if t.IsConst() {
		return t.val, t.val, nil
	}
	if iv, ok := f.iv[t.id]; ok {
		return iv.lo, iv.hi, iv.neq
	}
	switch t.op {
	case OpZExt:
		return 0, mask(t.args[0].sort.W), nil
	case OpAnd:
		if t.args[1].IsConst() {
			return 0, t.args[1].val, nil
		}
	}
	return 0, mask(t.sort.W), nil
}

// learn records that c holds.
func (f *factStore) learn(c *Term, val bool) {
	if c.IsConst() {
		return
	}
	f.truth[c.id] = val
	switch c.op {
	case OpBNot:
		f.learn(c.args[0], !val)
	case OpBAnd:
		if val {
			f.learn(c.args[0], true)
			f.learn(c.args[1], true)
		}
	case OpBOr:
		if !val {
			f.learn(c.args[0], false)
			f.learn(c.args[1], false)
		}
	case OpEq:
		a, b := c.args[0], c.args[1]
		if a.sort.K != KBV {
			return
		}
		if a.IsConst() {
			a, b = b, a
		}
		if !b.IsConst() {
			return
		}
		iv := f.get(a)
		if val {
			iv.lo, iv.hi = b.val, b.val
		} else {
			switch {
			case b.val == iv.lo && iv.lo < iv.hi:
				iv.lo++
				f.tighten(iv)
			case b.val == iv.hi && iv.lo < iv.hi:
				iv.hi--
				f.tighten(iv)
			default:
				if len(iv.neq) < 64 {
					iv.neq = append(iv.neq, b.val)
				}
			}
		}
	case OpUlt, OpUle:
		a, b := c.args[0], c.args[1]
		strict := c.op == OpUlt
		switch {
		case b.IsConst() && !a.IsConst():
			iv := f.get(a)
			k := b.val
			if val { // a < k  or a <= k
				if strict {
					if k == 0 {
						return
					}
					k--
				}
				if k < iv.hi {
					iv.hi = k
				}
			} else { // a >= k or a > k
				if !strict {
					if k == ^uint64(0) {
						return
					}
					k++
				}
				if k > iv.lo {
					iv.lo = k
				}
			}
			f.tighten(iv)
		case a.IsConst() && !b.IsConst():
			iv := f.get(b)
			k := a.val
			if val { // k < b or k <= b
				if strict {
					k++
				}
				if k > iv.lo {
					iv.lo = k
				}
			} else { // b <= k or b < k
				if !strict {
					if k == 0 {
						return
					}
					k--
				}
				if k < iv.hi {
					iv.hi = k
				}
			}
			f.tighten(iv)
		}
	}
}

func (f *factStore) tighten(iv *interval) {
	changed := true
	for changed && iv.lo < iv.hi {
		changed = false
		for _, n := range iv.neq {
			if n == iv.lo && iv.lo < iv.hi {
				iv.lo++
				changed = true
			}
			if n == iv.hi && iv.lo < iv.hi {
				iv.hi--
				changed = true
			}
		}
	}
}

// eval: 1 = true, 0 = false, -1 = unknown
func (f *factStore) eval(c *Term) int {
	if c.IsTrue() {
		return 1
	}
	if c.IsFalse() {
		return 0
	}
	if v, ok := f.truth[c.id]; ok {
		if v {
			return 1
		}
		return 0
	}
	switch c.op {
	case OpBNot:
		r := f.eval(c.args[0])
		if r < 0 {
			return -1
		}
		return 1 - r
	case OpBAnd:
		a, b := f.eval(c.args[0]), f.eval(c.args[1])
		if a == 0 || b == 0 {
			return 0
		}
		if a == 1 && b == 1 {
			return 1
		}
		return -1
	case OpBOr:
		a, b := f.eval(c.args[0]), f.eval(c.args[1])
		if a == 1 || b == 1 {
			return 1
		}
		if a == 0 && b == 0 {
			return 0
		}
		return -1
	case OpEq:
		a, b := c.args[0], c.args[1]
		if a.sort.K != KBV {
			return -1
		}
		alo, ahi, aneq := f.peek(a)
		blo, bhi, bneq := f.peek(b)
		if ahi < blo || bhi < alo {
			return 0
		}
		if alo == ahi && blo == bhi && alo == blo {
			return 1
		}
		if blo == bhi {
			for _, n := range aneq {
				if n == blo {
					return 0
				}
			}
		}
		if alo == ahi {
			for _, n := range bneq {
				if n == alo {
					return 0
				}
			}
		}
		return -1
	case OpUlt:
		alo, ahi, _ := f.peek(c.args[0])
		blo, bhi, _ := f.peek(c.args[1])
		if ahi < blo {
			return 1
		}
		if alo >= bhi {
			return 0
		}
		return -1
	case OpUle:
		alo, ahi, _ := f.peek(c.args[0])
		blo, bhi, _ := f.peek(c.args[1])
		if ahi <= blo {
			return 1
		}
		if alo > bhi {
			return 0
		}
		return -1
	case OpSlt, OpSle:
		a, b := c.args[0], c.args[1]
		w := a.sort.W
		alo, ahi, _ := f.peek(a)
		blo, bhi, _ := f.peek(b)
		sb := uint64(1) << uint(w-1)
		// only when neither interval crosses the sign boundary
		if (alo < sb) != (ahi < sb) || (blo < sb) != (bhi < sb) {
			return -1
		}
		aneg, bneg := alo >= sb, blo >= sb
		if aneg != bneg {
			if aneg {
				return 1
			}
			return 0
		}
		if c.op == OpSlt {
			if ahi < blo {
				return 1
			}
			if alo >= bhi {
				return 0
			}
		} else {
			if ahi <= blo {
				return 1
			}
			if alo > bhi {
				return 0
			}
		}
		return -1
	}
	return -1
}
