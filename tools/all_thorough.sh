#!/bin/sh
for p in C01 C02 C03 C05 C06 C09 C11 C12 C14 C16 C18 C20 C04 C10 C13 C17 C07 C08 C15 C19; do
  s=$(date +%s); ./check $p thorough > thorough_$p.log 2>&1; rc=$?
  echo "$p rc=$rc $(( $(date +%s) - s ))s $(grep '^SUMMARY' thorough_$p.log | cut -c1-220) notes=$(grep -c '^NOT-ESTABLISHED\|^ENGINE' thorough_$p.log)"
done
