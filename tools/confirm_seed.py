#!/usr/bin/env python3
"""Confirm a seeded change delivered by a sub-agent and store it under /verif/seeded/<id>/.
usage: confirm_seed.py <prop> <A|B> <src OUT dir>
Checks, in a scratch worktree of /repo (removed afterwards): patch applies to HEAD; the 9 baseline packages pass with it;
the demonstration fails with it and passes without it."""
import json, os, re, shutil, subprocess, sys, tempfile
prop, which, out = sys.argv[1], sys.argv[2], sys.argv[3]
env = dict(os.environ, GOFLAGS='-mod=mod', GOPROXY='off', GOSUMDB='off', GOTOOLCHAIN='local')
PK = '. ./smf ./sequencer ./internal/utils ./internal/runningstatus ./drivers/testdrv ./drivers/midicat ./drivers/internal/drivertest ./drivers/internal/version'.split()
def run(cmd, cwd, timeout=600):
    p = subprocess.run(cmd, cwd=cwd, env=env, stdout=subprocess.PIPE, stderr=subprocess.STDOUT, text=True, timeout=timeout)
    return p.returncode, p.stdout
patch = os.path.join(out, which + '.diff')
demo = os.path.join(out, 'zz_demo_%s_test.go' % which)
first = open(demo).readline()
m = re.search(r'dir:\s*(\S+)', first)
ddir = m.group(1)
wt = tempfile.mkdtemp(prefix='seedchk-')
os.rmdir(wt)
ran = []
res = {}
try:
    rc, o = run(['git', '-C', '/repo', 'worktree', 'add', '--detach', wt, 'HEAD'], '/'); assert rc == 0, o
    head = subprocess.check_output(['git', '-C', '/repo', 'rev-parse', 'HEAD'], text=True).strip()
    dst = os.path.join(wt, ddir, os.path.basename(demo))
    shutil.copy(demo, dst)
    pkg = './' + os.path.relpath(ddir, 'v2') if ddir != 'v2' else '.'
    test = 'TestDemo' + which
    cmd = ['go', 'test', '-vet=off', '-count=1', '-run', '^%s$' % test, pkg]
    rc, o = run(cmd, os.path.join(wt, 'v2')); ran.append(' '.join(cmd) + ' (clean tree) -> exit %d' % rc)
    res['demo_passes_clean'] = (rc == 0)
    rc, o = run(['git', 'apply', patch], wt); ran.append('git apply %s.diff -> exit %d' % (which, rc))
    res['applies'] = (rc == 0)
    if rc == 0:
        rc, o = run(['go', 'test', '-vet=off', '-count=1'] + PK, os.path.join(wt, 'v2')); ran.append('go test <9 baseline packages> (with change, demo file moved away) ...')
        os.remove(dst)
        rc, o = run(['go', 'test', '-vet=off', '-count=1'] + PK, os.path.join(wt, 'v2')); ran.append('go test -vet=off -count=1 <9 baseline packages> (with change) -> exit %d' % rc)
        res['suite_passes_with_change'] = (rc == 0)
        shutil.copy(demo, dst)
        rc, o = run(cmd, os.path.join(wt, 'v2')); ran.append(' '.join(cmd) + ' (with change) -> exit %d' % rc)
        res['demo_fails_with_change'] = (rc != 0)
        res['demo_output_tail'] = o[-600:]
finally:
    subprocess.run(['git', '-C', '/repo', 'worktree', 'remove', '--force', wt], stdout=subprocess.DEVNULL, stderr=subprocess.DEVNULL)
    shutil.rmtree(wt, ignore_errors=True)
ok = all(res.get(k) for k in ('demo_passes_clean', 'applies', 'suite_passes_with_change', 'demo_fails_with_change'))
print(prop, which, 'CONFIRMED' if ok else 'REJECTED', res if not ok else '')
if ok:
    d = '/verif/seeded/%s-%s' % (prop, which)
    os.makedirs(d, exist_ok=True)
    shutil.copy(patch, os.path.join(d, 'patch.diff'))
    shutil.copy(demo, os.path.join(d, os.path.basename(demo)))
    notes = open(os.path.join(out, 'NOTES.md')).read() if os.path.exists(os.path.join(out, 'NOTES.md')) else ''
    meta = {'property': prop, 'mutant': which, 'repo_head': head, 'demo_dir': ddir, 'demo_test': test,
            'needs_to_manifest': '(see notes)', 'confirmed': res, 'ran': ran, 'agent_notes': notes}
    json.dump(meta, open(os.path.join(d, 'meta.json'), 'w'), indent=1)
