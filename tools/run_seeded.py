#!/usr/bin/env python3
"""Apply each seeded change to /repo, run the owning check, undo. usage: run_seeded.py [tier] [ids...]
With SEED_SCRATCH=1 the change is applied in a scratch worktree of /repo (removed afterwards) and the check is
pointed at it with VERIF_REPO, so that /repo stays untouched (for experiments while other runs use /repo)."""
import json, os, subprocess, sys, time
tier = sys.argv[1] if len(sys.argv) > 1 else 'quick'
ids = sys.argv[2:] or sorted(os.listdir('/verif/seeded'))
rows = []
SCRATCH = os.environ.get('SEED_SCRATCH') == '1'
for sid in ids:
    d = '/verif/seeded/' + sid
    if not os.path.isdir(d): continue
    meta = json.load(open(d + '/meta.json'))
    prop = meta['property']
    repo = '/repo'
    env = dict(os.environ)
    if SCRATCH:
        repo = '/tmp/seedwt-%d' % os.getpid()
        subprocess.run(['git', '-C', '/repo', 'worktree', 'remove', '--force', repo], capture_output=True)
        subprocess.check_call(['git', '-C', '/repo', 'worktree', 'add', '-q', '--detach', repo, 'HEAD'])
        env['VERIF_REPO'] = repo + '/v2'
    env['VERIF_NO_EVIDENCE'] = '1'
    st = subprocess.run(['git', '-C', repo, 'status', '--porcelain', '--untracked-files=no'], capture_output=True, text=True).stdout.strip()
    assert st == '', repo + ' not clean: ' + st
    pf = d + '/patch_rebased.diff' if os.path.exists(d + '/patch_rebased.diff') else d + '/patch.diff'
    ap = subprocess.run(['git', '-C', repo, 'apply', pf], capture_output=True, text=True)
    if ap.returncode != 0:
        rows.append((sid, 'PATCH-DOES-NOT-APPLY', ap.stderr.strip().splitlines()[0][:100] if ap.stderr.strip() else '', 0)); print(rows[-1], flush=True)
        subprocess.run(['git', '-C', repo, 'checkout', '--', '.'])
        if SCRATCH: subprocess.run(['git', '-C', '/repo', 'worktree', 'remove', '--force', repo])
        continue
    t0 = time.time()
    try:
        p = subprocess.run(['/verif/check', prop, tier], capture_output=True, text=True, timeout=3600, env=env)
        out, rc = p.stdout, p.returncode
    except subprocess.TimeoutExpired:
        out, rc = '', 'timeout'
    finally:
        subprocess.run(['git', '-C', repo, 'reset', '-q']); subprocess.run(['git', '-C', repo, 'checkout', '--', '.'])
        if SCRATCH: subprocess.run(['git', '-C', '/repo', 'worktree', 'remove', '--force', repo])
    vio = [l for l in out.splitlines() if l.startswith('VIOLATION')]
    detail = [l.strip() for l in out.splitlines() if l.startswith('  harness=')]
    ne = [l for l in out.splitlines() if l.startswith('NOT-ESTABLISHED') or l.startswith('ENGINE')]
    verdict = 'DETECTED' if rc == 1 and vio else ('MISSED' if rc == 0 else 'ERROR rc=%s' % rc)
    rows.append((sid, verdict, (detail[0] if detail else (ne[0] if ne else ''))[:160], round(time.time() - t0, 1)))
    print(rows[-1], flush=True)
json.dump(rows, open(os.environ.get('SEED_OUT', '/verif/seeded/last_run_%s.json' % tier), 'w'), indent=1)
