#!/bin/sh
# usage: ingest_seed.sh <agent-worktree> <seed-id>: confirm a sub-agent's seeded change in a FRESH scratch worktree
# (patch applies, library builds, 9 baseline packages pass, demo fails with / passes without) and store it as /verif/seeded/<seed-id>/
src=$1; sid=$2
export GOFLAGS=-mod=mod GOPROXY=off GOSUMDB=off GOTOOLCHAIN=local CGO_ENABLED=0
[ -f $src/_seed/patch.diff ] && [ -f $src/_seed/demo_test.go ] || { echo "INGEST $sid: missing files"; exit 2; }
wt=/tmp/ingest-$$
git -C /repo worktree add -q --detach $wt HEAD || exit 2
trap 'git -C /repo worktree remove --force '$wt' 2>/dev/null' EXIT
dir=$(head -3 $src/_seed/demo_test.go | sed -n 's#^// *dir: *\(v2[^ ]*\).*#\1#p' | head -1)
[ -n "$dir" ] || { echo "INGEST $sid: no dir line"; exit 2; }
cp $src/_seed/demo_test.go $wt/$dir/zz_demo_test.go
name=$(sed -n 's/^func \(Test[A-Za-z0-9_]*\).*/\1/p' $src/_seed/demo_test.go | head -1)
( cd $wt/$dir && go test -vet=off -count=1 -run "^$name\$" . >/tmp/ingest-$$.a 2>&1 ); a=$?
git -C $wt apply $src/_seed/patch.diff || { echo "INGEST $sid: patch does not apply"; exit 2; }
( cd $wt/$dir && go test -vet=off -count=1 -run "^$name\$" . >/tmp/ingest-$$.b 2>&1 ); b=$?
rm $wt/$dir/zz_demo_test.go
( cd $wt/v2 && go test -vet=off -count=1 . ./smf ./sequencer ./internal/utils ./internal/runningstatus ./drivers/testdrv ./drivers/midicat ./drivers/internal/drivertest ./drivers/internal/version >/tmp/ingest-$$.c 2>&1 ); c=$?
echo "INGEST $sid: demo-without=$a (want 0) demo-with=$b (want 1) baseline-with=$c (want 0) test=$name dir=$dir"
if [ $a = 0 ] && [ $b != 0 ] && [ $c = 0 ]; then
  mkdir -p /verif/seeded/$sid && cp $src/_seed/patch.diff $src/_seed/demo_test.go /verif/seeded/$sid/
  python3 - "$src/_seed/meta.json" "/verif/seeded/$sid/meta.json" "$name" "$dir" <<'P'
import json,sys
try: m=json.load(open(sys.argv[1]))
except Exception as e: m={"summary":"(agent meta unreadable)"}
m["round"]=6
m["confirmed"]="fresh worktree of /repo HEAD: demo %s in %s passes without the patch, fails with it; the 9 baseline packages pass with it (tools/ingest_seed.sh)"%(sys.argv[3],sys.argv[4])
json.dump(m,open(sys.argv[2],"w"),indent=1)
P
  echo "INGEST $sid: stored"
else
  tail -5 /tmp/ingest-$$.b /tmp/ingest-$$.c
fi
rm -f /tmp/ingest-$$.a /tmp/ingest-$$.b /tmp/ingest-$$.c
