#!/usr/bin/env python3
"""Rewrite the "Checks as built" table of DESIGN.md from harness/registry.json."""
import json, re
r = json.load(open('/verif/harness/registry.json'))
pkgname = {'.': 'midi'}
rows = []
for p in sorted(k for k in r if re.fullmatch(r'C\d\d', k)):
    v = r[p]
    seen, fns, modes = set(), [], set()
    for h in v['harnesses']:
        modes.add('ENV' if h.get('arith') else 'BV')
        if h['func'] in seen:
            continue
        seen.add(h['func'])
        fns.append('`%s` (%s)' % (h['func'], pkgname.get(h['pkg'], h['pkg'])))
    mode = ' + '.join(sorted(modes))
    rows.append('| %s | %s | %s | %s | %s |' % (p, ', '.join(fns), mode, v.get('bounds', ''), v.get('outside', '')))
s = open('/verif/DESIGN.md').read()
head = '| id | harness functions (package) | mode | bounds as registered (quick; thorough) | outside |\n|---|---|---|---|---|\n'
i = s.index(head) + len(head)
j = s.index('\n\n', i)
s = s[:i] + '\n'.join(rows) + s[j:]
open('/verif/DESIGN.md', 'w').write(s)
print(len(rows), 'rows')
