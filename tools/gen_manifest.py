#!/usr/bin/env python3
"""Regenerate /verif/MANIFEST.json from harness/registry.json and tools/manifest_text.json."""
import json
reg = json.load(open('/verif/harness/registry.json'))
txt = json.load(open('/verif/tools/manifest_text.json'))
props = [json.loads(l) for l in open('/verif/properties.jsonl')]
checks, na = [], []
for p in props:
    pid = p['id']
    if pid in reg and pid in txt and not txt[pid].get('not_applicable'):
        t = txt[pid]
        has_thorough = any('thorough' in h for h in reg[pid]['harnesses'])
        c = {"property_id": pid, "quick_cmd": "./check %s quick" % pid, "evidence_file": "/verif/evidence/%s.json" % pid,
             "replay_cmd_template": "./check --replay {path}", "engine": "gosymex",
             "level_claimed": {"category": "model_checking", "text": t['level_text'], "design_ref": t.get('design_ref', 'DESIGN.md section 5 ' + pid)},
             "level_note": t['level_note'], "technique": t.get('technique', "bounded symbolic execution of the real go/ssa code; every assertion decided by an SMT query (z3 5.1.0; portfolio z3 4.8.12 / cvc5) over all inputs within the stated bounds; counterexamples replayed natively")}
        c["thorough_cmd"] = "./check %s thorough" % pid
        checks.append(c)
    else:
        na.append({"property_id": pid, "reason": txt.get(pid, {}).get('not_applicable', "check not built yet (see DESIGN.md section 9 build order)")})
m = {"version": 1,
     "setup_cmd": "cd /verif/engine && GOFLAGS=-mod=mod GOPROXY=off GOSUMDB=off GOTOOLCHAIN=local CGO_ENABLED=0 go build -o ../bin/gosymex .",
     "hooks": {"guard": "verif", "enable": "none needed: harnesses and the harness runtime are injected through go/packages and go test overlays (nothing is compiled into /repo; no hook commits)",
               "baseline_off_cmd": "cd /repo/v2 && GOFLAGS=-mod=mod GOPROXY=off GOSUMDB=off GOTOOLCHAIN=local go test -vet=off -count=1 . ./smf ./sequencer ./internal/utils ./internal/runningstatus ./drivers/testdrv ./drivers/midicat ./drivers/internal/drivertest ./drivers/internal/version",
               "source_commits": [], "add_only": True},
     "engines": [{"name": "gosymex", "path": "/verif/engine", "serves_properties": [c['property_id'] for c in checks],
                  "kind_free_text": "path-forking symbolic interpreter over go/ssa (x/tools v0.29.0) of the real gomidi code, SMT back ends z3 5.1.0 / z3 4.8.12 / cvc5 1.0.3, native replay of counterexamples via go test -overlay"}],
     "checks": checks,
     "notes": "Every check loads /repo/v2 as it is on disk, injects the harness of the property by overlay, executes it symbolically and decides each assertion with an SMT solver. Exit 0 = all registered bounds explored without an unlisted violation; NOT-ESTABLISHED lines report reduced coverage (timeouts, unsupported constructs); exit 1 + VIOLATION only for natively reproduced counterexamples; exit 2 = engine failure (no verdict).",
     "not_applicable": na}
json.dump(m, open('/verif/MANIFEST.json', 'w'), indent=1)
print(len(checks), 'checks,', len(na), 'not applicable')
