#!/bin/sh
# usage: demo_on_tree.sh <seed-id>: does the seeded change still break its own demonstration on the current (repaired) /repo HEAD?
export GOFLAGS=-mod=mod GOPROXY=off GOSUMDB=off GOTOOLCHAIN=local
sid=$1; d=/verif/seeded/$sid; wt=/tmp/demotree-$$
git -C /repo worktree add -q --detach $wt HEAD || exit 2
pf=$d/patch_rebased.diff; [ -f $pf ] || pf=$d/patch.diff
git -C $wt apply $pf || { git -C /repo worktree remove --force $wt; exit 2; }
demo=$(ls $d/zz_demo_*_test.go | head -1)
dir=$(head -1 $demo | sed 's/.*dir: *//')
cp $demo $wt/$dir/
t=$(grep -o 'func TestDemo[A-Z]*' $demo | head -1 | sed 's/func //')
(cd $wt/$dir && go test -vet=off -count=1 -run "^$t\$" . 2>&1 | tail -3)
git -C /repo worktree remove --force $wt
