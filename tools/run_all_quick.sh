#!/bin/sh
# regenerate every evidence file from a quick run on the current (unchanged) tree
cd /verif || exit 2
for p in $(python3 -c "import json;print(' '.join(c['property_id'] for c in json.load(open('MANIFEST.json'))['checks']))"); do
  rm -f evidence/$p.json
  ./check $p quick > /tmp/quick_$p.log 2>&1; rc=$?
  echo "$p rc=$rc $(grep '^SUMMARY' /tmp/quick_$p.log | cut -c1-200) $(grep -c '^NOT-ESTABLISHED\|^ENGINE' /tmp/quick_$p.log) notes"
done
