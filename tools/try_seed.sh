#!/bin/sh
# usage: try_seed.sh <seed-id> <prop> [only-substring] [tier]: apply a seeded change in a scratch worktree of /repo and run (part of) one check there
sid=$1; prop=$2; only=$3; tier=${4:-quick}
wt=/tmp/tryseed-$$
git -C /repo worktree add -q --detach $wt HEAD || exit 2
pf=/verif/seeded/$sid/patch_rebased.diff; [ -f $pf ] || pf=/verif/seeded/$sid/patch.diff
git -C $wt apply $pf || { git -C /repo worktree remove --force $wt; exit 2; }
if [ -n "$only" ]; then
VERIF_REPO=$wt/v2 VERIF_NO_EVIDENCE=1 /verif/bin/gosymex check -prop $prop -tier $tier -only "$only" -v -no-evidence 2>&1 | grep -v "^loaded" | grep -v "^  native\|^harness " | cut -c1-260 | tail -${TAIL:-6}
else
VERIF_REPO=$wt/v2 VERIF_NO_EVIDENCE=1 /verif/bin/gosymex check -prop $prop -tier $tier -v -no-evidence 2>&1 | grep -v "^loaded" | grep -v "^  native\|^harness " | cut -c1-260 | tail -${TAIL:-6}
fi
git -C /repo worktree remove --force $wt
